#!/usr/bin/env python3
import json,sys
t=json.load(open(sys.argv[1]))
def short(o, n=160):
    s=json.dumps(o, ensure_ascii=False, sort_keys=True)
    return s if len(s)<=n else s[:n]+'…'
print('world:', short(t.get('world'), 400)) if t.get('world') else None
for i,o in enumerate(t['ops']):
    print(i, short(o, int(sys.argv[2]) if len(sys.argv)>2 else 200))
print('VIOLATION', t.get('violation'))
print('minimised_from', t.get('minimised_from'))
