"""In-memory network for the simulated Tornado server: a server-side BaseIOStream whose bytes come
from / go to a Link owned by the simulator; a client that speaks raw HTTP/1.1 over the link in
scheduler-chosen fragments with virtual delays."""
import asyncio
import collections
import errno

from tornado import iostream


class Link:
    """One simulated TCP connection.  c2s: bytes delivered to the server side; s2c: bytes the server wrote."""
    _next_fd = 1000

    def __init__(self, loop, log, cid):
        Link._next_fd += 1
        self.fd = Link._next_fd
        self.loop = loop
        self.log = log
        self.cid = cid
        self.c2s = collections.deque()
        self.client_closed = False      # client sent FIN
        self.reset = False              # connection reset by the network
        self.s2c = bytearray()
        self.server_closed = False
        self.s2c_event = asyncio.Event()
        self.write_quota = None         # None = unlimited; else max bytes accepted per write_to_fd (back-pressure knob)
        self.stream = None

    # ---- client -> server
    def deliver(self, data):
        self.c2s.append(bytes(data))
        self.log.ev("net", c=self.cid, e="deliver", n=len(data))
        self.loop.fd_ready(self.fd)

    def close_from_client(self):
        self.client_closed = True
        self.log.ev("net", c=self.cid, e="client_close")
        self.loop.fd_ready(self.fd)

    def reset_connection(self):
        self.reset = True
        self.client_closed = True
        self.log.ev("net", c=self.cid, e="reset")
        self.loop.fd_ready(self.fd)
        self.loop.fd_ready(self.fd, writable=True)


class SimStream(iostream.BaseIOStream):
    """Server-side stream handed to the real HTTPServer.handle_stream."""

    def __init__(self, link, **kw):
        self.link = link
        self.socket = None
        super().__init__(**kw)
        link.stream = self

    def fileno(self):
        return self.link.fd

    def close_fd(self):
        # (not logged: idle keep-alive connections are closed when their serving coroutine is finalised by a
        # gc.collect(), and the order among several such finalisations depends on object addresses)
        self.link.server_closed = True
        self.link.s2c_event.set()

    def get_fd_error(self):
        if self.link.reset:
            return ConnectionResetError(errno.ECONNRESET, "Connection reset by peer (simulated)")
        return None

    def read_from_fd(self, buf):
        link = self.link
        if link.reset:
            raise ConnectionResetError(errno.ECONNRESET, "Connection reset by peer (simulated)")
        if not link.c2s:
            if link.client_closed:
                return 0          # EOF
            return None           # would block
        chunk = link.c2s[0]
        n = min(len(chunk), len(buf))
        buf[:n] = chunk[:n]
        if n == len(chunk):
            link.c2s.popleft()
        else:
            link.c2s[0] = chunk[n:]
        return n

    def write_to_fd(self, data):
        link = self.link
        if link.reset:
            raise ConnectionResetError(errno.ECONNRESET, "Connection reset by peer (simulated)")
        n = len(data)
        if link.write_quota is not None:
            n = min(n, link.write_quota)
        link.s2c += bytes(data[:n])
        link.s2c_event.set()
        del data
        return n

    def set_nodelay(self, value):
        pass


def install_writable_hook(loop, links):
    """Sockets are (almost) always writable: when a writer is registered, fire it on the next iteration."""
    def hook(fd):
        loop.fd_ready(fd, writable=True)
    loop.on_add_writer = hook


class HTTPResponse:
    def __init__(self, status, headers, body, closed_early=False):
        self.status, self.headers, self.body, self.closed_early = status, headers, body, closed_early


async def read_response(link, deadline_s, no_body=False):
    """Parse one HTTP/1.1 response from link.s2c (Content-Length or close-delimited or chunked).
    Returns HTTPResponse, or None if the server closed / nothing complete arrived before the deadline."""
    loop = link.loop
    end = loop.time() + deadline_s

    async def wait_more():
        remaining = end - loop.time()
        if remaining <= 0:
            return False
        link.s2c_event.clear()
        try:
            await asyncio.wait_for(link.s2c_event.wait(), remaining)
        except asyncio.TimeoutError:
            return False
        return True

    while True:
        i = link.s2c.find(b"\r\n\r\n")
        if i >= 0:
            break
        if link.server_closed:
            return None
        if not await wait_more():
            return None
    head = bytes(link.s2c[:i]).decode("latin1")
    lines = head.split("\r\n")
    parts = lines[0].split(" ", 2)
    try:
        status = int(parts[1])
    except (ValueError, IndexError):
        raise ValueError("simulated client cannot parse a status line out of %r" % bytes(link.s2c[:400]))
    headers = {}
    for l in lines[1:]:
        k, _, v = l.partition(":")
        headers[k.strip().lower()] = v.strip()
    rest_from = i + 4
    if 100 <= status < 200:
        # interim response (100 Continue): drop it and parse the final response that follows
        del link.s2c[:rest_from]
        return await read_response(link, max(0.0, end - loop.time()), no_body=no_body)
    if status in (204, 304) or no_body:     # (answer to a HEAD request)
        del link.s2c[:rest_from]
        return HTTPResponse(status, headers, b"")
    if "content-length" in headers:
        need = int(headers["content-length"])
        while len(link.s2c) - rest_from < need:
            if link.server_closed:
                body = bytes(link.s2c[rest_from:])
                del link.s2c[:]
                return HTTPResponse(status, headers, body, closed_early=True)
            if not await wait_more():
                return None
        body = bytes(link.s2c[rest_from:rest_from + need])
        del link.s2c[:rest_from + need]
        return HTTPResponse(status, headers, body)
    if headers.get("transfer-encoding", "").lower() == "chunked":
        body = bytearray()
        pos = rest_from
        while True:
            j = link.s2c.find(b"\r\n", pos)
            if j < 0:
                if link.server_closed or not await wait_more():
                    return None
                continue
            size = int(bytes(link.s2c[pos:j]).split(b";")[0], 16)
            while len(link.s2c) < j + 2 + size + 2:
                if link.server_closed or not await wait_more():
                    return None
            body += link.s2c[j + 2:j + 2 + size]
            pos = j + 2 + size + 2
            if size == 0:
                del link.s2c[:pos]
                return HTTPResponse(status, headers, bytes(body))
    # close-delimited
    while not link.server_closed:
        if not await wait_more():
            return None
    body = bytes(link.s2c[rest_from:])
    del link.s2c[:]
    return HTTPResponse(status, headers, body)
