"""SimFS / SimProc: the file-I/O and helper-process seams of one simulated CLI process.

Real files are used underneath (helper programs must see them).  The wrapper
 (a) appends an event per open/read/write/flush/close/remove/rename/mkdtemp/rmtree/spawn on a managed path (the
     buffered layer through open/io.open, the raw layer through io.FileIO and os.open/os.write/os.close),
 (b) consults the fault plan for that event,
 (c) keeps its own write buffer, so that a *kill* discards unflushed data exactly as SIGKILL
     would, and a *torn write* persists a prefix.
Events are identified by (kind, path class, occurrence) so that a fault directive stays meaningful
when the scenario is minimised."""
import builtins
import errno
import io
import os
import shutil
import subprocess
import tempfile

from simkit.core import guard_path


class SimKill(BaseException):
    """The simulated process dies here (SIGKILL): nothing it does afterwards reaches the disk."""


_ERRNO = {"EIO": errno.EIO, "EACCES": errno.EACCES, "ENOSPC": errno.ENOSPC, "EMFILE": errno.EMFILE,
          "ENOENT": errno.ENOENT, "ENOMEM": errno.ENOMEM, "EAGAIN": errno.EAGAIN, "EINTR": errno.EINTR}

# which fault kinds are legal at which event kind
LEGAL = {
    "open_r": ["EIO", "EACCES", "EMFILE", "ENOENT", "MemoryError", "KeyboardInterrupt", "kill"],
    "open_w": ["EACCES", "EMFILE", "ENOSPC", "MemoryError", "KeyboardInterrupt", "kill"],
    "read": ["EIO", "MemoryError", "KeyboardInterrupt", "kill"],
    "write": ["ENOSPC", "EIO", "torn", "MemoryError", "KeyboardInterrupt", "kill"],
    # a write on the raw layer (io.FileIO, os.write): one write(2), which may legally accept fewer bytes than offered
    "rawwrite": ["ENOSPC", "EIO", "short", "torn", "MemoryError", "KeyboardInterrupt", "kill"],
    "rename": ["EACCES", "EIO", "kill"],
    "flush": ["ENOSPC", "EIO", "kill"],
    "close": ["ENOSPC", "EIO", "KeyboardInterrupt", "kill"],
    "remove": ["EACCES", "EIO", "kill"],
    "mkdtemp": ["ENOSPC", "EACCES", "MemoryError", "kill"],
    "rmtree": ["EIO", "kill"],
    "spawn": ["ENOMEM", "EAGAIN", "ENOENT", "helper_killed", "helper_status2", "KeyboardInterrupt", "kill"],
    "phase": ["MemoryError", "KeyboardInterrupt", "RecursionError", "kill"],
}

_real_open = builtins.open
_real_remove = os.remove
_real_unlink = os.unlink
_real_mkdtemp = tempfile.mkdtemp
_real_rmtree = shutil.rmtree
_real_popen = subprocess.Popen
_real_fileio = io.FileIO
_real_os_open = os.open
_real_os_write = os.write
_real_os_close = os.close
_real_replace = os.replace
_real_rename = os.rename


class SimFile:
    """A file object of the simulated process.  Writes are buffered here until flush/close."""

    def __init__(self, fs, real, pclass, mode):
        self._fs, self._real, self._pclass, self._mode = fs, real, pclass, mode
        self._buf = []
        self._closed = False
        self._writing = any(c in mode for c in "wax+")

    # -- reading
    def read(self, *a):
        self._fs.event("read", self._pclass)
        return self._real.read(*a)

    def readline(self, *a):
        return self._real.readline(*a)

    def readlines(self, *a):
        self._fs.event("read", self._pclass)
        return self._real.readlines(*a)

    def __iter__(self):
        self._fs.event("read", self._pclass)
        return iter(self._real)

    # -- writing
    def write(self, data):
        f = self._fs.event("write", self._pclass, defer=("torn",))
        if f == "torn":
            # a prefix (everything buffered so far plus half of this chunk) reaches the disk, then the disk is full
            half = data[:max(0, len(data) // 2)]
            if not self._fs.dead:
                for d in self._buf:
                    self._put(d)
                self._put(half)
                self._real.flush()
            self._buf = []
            raise OSError(errno.ENOSPC, "No space left on device (injected, torn write)")
        if not self._fs.dead:
            self._buf.append(data)
        return len(data)

    def writelines(self, lines):
        for l in lines:
            self.write(l)

    def _put(self, d):
        # text and bytes may be mixed when a program writes through `stream.buffer` of a text stream
        if isinstance(d, (bytes, bytearray, memoryview)) and hasattr(self._real, "buffer") and "b" not in self._mode:
            self._real.flush()
            self._real.buffer.write(d)
        else:
            self._real.write(d)

    def _persist(self):
        if self._fs.dead:
            self._buf = []
            return
        for d in self._buf:
            self._put(d)
        self._buf = []
        self._real.flush()

    @property
    def buffer(self):
        """The binary layer of a text stream (sys.stdout.buffer): same events, same write buffer, same faults."""
        if "b" in self._mode:
            raise AttributeError("buffer")
        return _BinaryView(self)

    def flush(self):
        if self._closed:
            raise ValueError("I/O operation on closed file.")
        if self._writing:
            try:
                self._fs.event("flush", self._pclass)
            except OSError:
                self._buf = []          # the data never reached the disk
                raise
            self._persist()

    # -- position and size: like the io classes, these flush what was written so far
    def truncate(self, size=None):
        if self._writing:
            self.flush()
        if self._fs.dead:
            return size or 0
        return self._real.truncate(size) if size is not None else self._real.truncate()

    def seek(self, *a):
        if self._writing and self._buf:
            self.flush()
        return self._real.seek(*a)

    def tell(self):
        if self._writing and self._buf:
            self.flush()
        return self._real.tell()

    def close(self):
        if self._closed:
            return
        self._closed = True
        try:
            if self._writing:
                try:
                    self._fs.event("close", self._pclass)
                except OSError:
                    self._buf = []
                    raise
                self._persist()
            else:
                self._fs.event("close", self._pclass)
        finally:
            try:
                self._real.close()
            except Exception:
                pass

    def __del__(self):
        # CPython finalises an unclosed file object by closing it; an error raised by that final flush is
        # reported as "Exception ignored" and otherwise swallowed.  Model exactly that.
        if not self._closed:
            try:
                self.close()
            except BaseException as e:   # noqa
                if isinstance(e, SimKill):
                    self._fs.dead = True

    @property
    def closed(self):
        return self._closed

    def __enter__(self):
        return self

    def __exit__(self, *a):
        self.close()
        return False

    def __getattr__(self, name):
        return getattr(self._real, name)


def _raw_write(fs, pclass, data, really_write):
    """One write(2) on a managed file: nothing is buffered in the process, so what is accepted is on disk at once.
    'short': the kernel takes a prefix and reports the count (disk nearly full, file size limit, signal) - legal, no
    error; 'torn': a prefix is taken by an earlier partial attempt and this call then fails."""
    f = fs.event("rawwrite", pclass, defer=("torn", "short"))
    if fs.dead:
        return len(data)
    data = bytes(data)
    if f in ("torn", "short"):
        n = len(data) // 2 if len(data) > 1 else len(data)
        really_write(data[:n])
        if f == "torn":
            raise OSError(errno.ENOSPC, "No space left on device (injected, torn raw write)")
        return n
    done = 0
    while done < len(data):
        done += really_write(data[done:])
    return done


class _BinaryView:
    def __init__(self, f):
        self._f = f

    def write(self, data):
        return self._f.write(bytes(data))

    def flush(self):
        return self._f.flush()

    def close(self):
        return self._f.close()

    def fileno(self):
        return self._f.fileno()

    @property
    def closed(self):
        return self._f.closed

    def writable(self):
        return True


class SimRawFile:
    """io.FileIO on a managed path."""

    def __init__(self, fs, real, pclass, mode):
        self._fs, self._real, self._pclass, self._mode = fs, real, pclass, mode
        self._closed = False

    def write(self, data):
        return _raw_write(self._fs, self._pclass, data, self._real.write)

    def read(self, *a):
        self._fs.event("read", self._pclass)
        return self._real.read(*a)

    def readall(self):
        self._fs.event("read", self._pclass)
        return self._real.readall()

    def flush(self):
        pass

    def close(self):
        if self._closed:
            return
        self._closed = True
        try:
            self._fs.event("close", self._pclass)
        finally:
            self._real.close()

    def __del__(self):
        if not self._closed:
            try:
                self.close()
            except BaseException as e:   # noqa
                if isinstance(e, SimKill):
                    self._fs.dead = True

    @property
    def closed(self):
        return self._closed

    def __enter__(self):
        return self

    def __exit__(self, *a):
        self.close()
        return False

    def __getattr__(self, name):
        return getattr(self._real, name)


class FakeProc:
    """Stands for a helper process that was killed or failed: what the caller can observe."""

    def __init__(self, real, returncode, truncate):
        out, err = real.communicate()
        self._out = (out or b"")[: (len(out or b"") // 2) if truncate else None]
        if truncate == "all":
            self._out = b""
        self.returncode = returncode
        self.pid = real.pid
        self.args = real.args
        self.stdout = self.stderr = self.stdin = None

    def communicate(self, input=None, timeout=None):
        return self._out, b""

    def wait(self, timeout=None):
        return self.returncode

    def poll(self):
        return self.returncode

    def __enter__(self):
        return self

    def __exit__(self, *a):
        return False

    def kill(self):
        pass


class SimFS:
    def __init__(self, log, root, classify, plan=None):
        """classify(abs_path) -> path class string, or None for unmanaged paths.
        plan: list of {'at': [kind, pclass, occurrence], 'kind': fault}."""
        self.log = log
        self.root = os.path.realpath(root)
        self.classify = classify
        self.plan = {}
        for f in plan or []:
            if f["at"][0] != "line":
                self.plan[tuple(f["at"])] = f["kind"]
        self.events = []          # [(kind, pclass, occurrence)]
        self.counts = {}
        self.dead = False
        self.fired = []           # [(event key, fault kind)]
        self.phase = "start"
        self.fired_phase = None
        self._installed = False
        self.fds = {}             # descriptors opened through the os.open seam -> path class

    # ---- the event / fault core
    def event(self, kind, pclass, defer=()):
        if self.dead:
            return None
        occ = self.counts.get((kind, pclass), 0)
        self.counts[(kind, pclass)] = occ + 1
        key = (kind, pclass, occ)
        self.events.append(key)
        self.log.ev("seam", e=list(key))
        fault = self.plan.get(key)
        if fault is None:
            return None
        self.fired.append((key, fault))
        self.fired_phase = self.phase
        self.log.ev("fault", at=list(key), fault=fault)
        if fault in defer:
            return fault
        self.raise_fault(fault)

    def raise_fault(self, fault):
        if fault == "kill":
            self.dead = True
            raise SimKill()
        if fault == "MemoryError":
            raise MemoryError("injected")
        if fault == "RecursionError":
            raise RecursionError("injected")
        if fault == "KeyboardInterrupt":
            raise KeyboardInterrupt()
        if fault in _ERRNO:
            raise OSError(_ERRNO[fault], os.strerror(_ERRNO[fault]) + " (injected)")
        raise ValueError("unknown fault %r" % fault)

    def mark(self, phase):
        """A phase boundary of the process (e.g. 'merge called', 'merge returned') — also a fault point."""
        self.phase = phase
        self.event("phase", phase)

    def _class_of(self, path):
        try:
            p = os.path.realpath(os.fspath(path))
        except TypeError:
            return None
        if not (p == self.root or p.startswith(self.root + os.sep)):
            return None
        return self.classify(p)

    # ---- seams
    def open(self, file, mode="r", *a, **kw):
        if isinstance(file, int):
            if file in self.fds:
                # os.fdopen of a descriptor obtained through the os.open seam
                pclass = self.fds.pop(file)
                return SimFile(self, _real_open(file, mode, *a, **kw), pclass, mode)
            return _real_open(file, mode, *a, **kw)
        pclass = self._class_of(file)
        if pclass is None:
            return _real_open(file, mode, *a, **kw)
        writing = any(c in mode for c in "wax+")
        self.event("open_w" if writing else "open_r", pclass)
        if self.dead:
            return SimFile(self, _real_open(os.devnull, "w" if writing else "r"), pclass, mode)
        real = _real_open(file, mode, *a, **kw)
        return SimFile(self, real, pclass, mode)

    def fileio(self, file, mode="r", *a, **kw):
        if isinstance(file, int):
            if file in self.fds:
                pclass = self.fds.pop(file)
                return SimRawFile(self, _real_fileio(file, mode, *a, **kw), pclass, mode)
            return _real_fileio(file, mode, *a, **kw)
        pclass = self._class_of(file)
        if pclass is None:
            return _real_fileio(file, mode, *a, **kw)
        writing = any(c in mode for c in "wax+")
        self.event("open_w" if writing else "open_r", pclass)
        if self.dead:
            return SimRawFile(self, _real_fileio(os.devnull, "w" if writing else "r"), pclass, mode)
        return SimRawFile(self, _real_fileio(file, mode, *a, **kw), pclass, mode)

    def os_open(self, path, flags, *a, **kw):
        pclass = self._class_of(path) if isinstance(path, (str, bytes, os.PathLike)) else None
        if pclass is None or (flags & getattr(os, "O_DIRECTORY", 0)) or kw.get("dir_fd") is not None:
            return _real_os_open(path, flags, *a, **kw)
        writing = bool(flags & (os.O_WRONLY | os.O_RDWR | os.O_CREAT | os.O_TRUNC | os.O_APPEND))
        self.event("open_w" if writing else "open_r", pclass)
        if self.dead:
            fd = _real_os_open(os.devnull, os.O_WRONLY if writing else os.O_RDONLY)
        else:
            fd = _real_os_open(path, flags, *a, **kw)
        self.fds[fd] = pclass
        return fd

    def os_write(self, fd, data):
        if fd not in self.fds:
            return _real_os_write(fd, data)
        return _raw_write(self, self.fds[fd], data, lambda d: _real_os_write(fd, d))

    def os_close(self, fd):
        pclass = self.fds.pop(fd, None)
        if pclass is None:
            return _real_os_close(fd)
        try:
            self.event("close", pclass)
        finally:
            _real_os_close(fd)

    def _rename(self, real, src, dst, *a, **kw):
        pclass = self._class_of(dst)
        if pclass is None:
            guard_path(src)
            guard_path(dst)
            return real(src, dst, *a, **kw)
        self.event("rename", pclass)
        if self.dead:
            return None
        return real(src, dst, *a, **kw)

    def replace(self, src, dst, *a, **kw):
        return self._rename(_real_replace, src, dst, *a, **kw)

    def rename(self, src, dst, *a, **kw):
        return self._rename(_real_rename, src, dst, *a, **kw)

    def remove(self, path, *a, **kw):
        pclass = self._class_of(path)
        if pclass is None:
            if kw.get("dir_fd") is None:
                guard_path(path)
            return _real_remove(path, *a, **kw)
        self.event("remove", pclass)
        if self.dead:
            return None
        return _real_remove(path, *a, **kw)

    def mkdtemp(self, *a, **kw):
        self.event("mkdtemp", "tmp")
        return _real_mkdtemp(*a, **kw)

    def rmtree(self, path, *a, **kw):
        pclass = self._class_of(path)
        if pclass is None:
            guard_path(path)
        if pclass is not None:
            self.event("rmtree", "tmp")
            if self.dead:
                return None
        # the real rmtree must not see the remove/unlink seams (it would log one event per entry)
        cur = (os.remove, os.unlink, os.open, os.close)
        os.remove, os.unlink, os.open, os.close = _real_remove, _real_unlink, _real_os_open, _real_os_close
        try:
            return _real_rmtree(path, *a, **kw)
        finally:
            os.remove, os.unlink, os.open, os.close = cur

    def popen(self, argv, *a, **kw):
        name = os.path.basename(argv[0]) if isinstance(argv, (list, tuple)) and argv else "sh"
        if isinstance(argv, (list, tuple)) and len(argv) > 1 and name == "git":
            name = "git-" + str(argv[1])
        f = self.event("spawn", name, defer=("helper_killed", "helper_status2", "helper_silent_ok"))
        if self.dead:
            raise SimKill()
        real = _real_popen(argv, *a, **kw)
        if f == "helper_killed":
            return FakeProc(real, -9, truncate=True)
        if f == "helper_status2":
            return FakeProc(real, 2, truncate=True)
        if f == "helper_silent_ok":
            # (not in LEGAL: a helper that prints nothing and still reports status 0 is not a *failed step* nbdime could
            # notice - an empty merge result is legitimate - so the property cannot demand anything of it; kept only
            # for replaying the experiment described in DESIGN.md section 15)
            return FakeProc(real, 0, truncate="all")
        return real

    def install(self):
        self._saved = (builtins.open, io.open, os.remove, os.unlink, tempfile.mkdtemp, shutil.rmtree, subprocess.Popen)
        self._saved_raw = (io.FileIO, os.open, os.write, os.close, os.replace, os.rename)
        io.FileIO = self.fileio
        os.open, os.write, os.close = self.os_open, self.os_write, self.os_close
        os.replace, os.rename = self.replace, self.rename
        builtins.open = self.open
        io.open = self.open
        os.remove = self.remove
        os.unlink = self.remove
        tempfile.mkdtemp = self.mkdtemp
        shutil.rmtree = self.rmtree
        subprocess.Popen = self.popen
        # names bound by `from subprocess import Popen` / `from io import open` in the package under test
        from simkit.core import NamedImports
        self._named = [NamedImports(_real_popen, self.popen), NamedImports(_real_open, self.open)]
        for n in self._named:
            n.__enter__()
        self._installed = True

    def uninstall(self):
        if self._installed:
            (builtins.open, io.open, os.remove, os.unlink, tempfile.mkdtemp, shutil.rmtree, subprocess.Popen) = self._saved
            (io.FileIO, os.open, os.write, os.close, os.replace, os.rename) = self._saved_raw
            for n in self._named:
                n.__exit__()
            self._installed = False
