"""'An interrupt or allocation failure at an arbitrary instant' without touching the sources:
count line events in files under <repo>/nbdime/ during one operation and raise a chosen
exception at the N-th."""
import linecache
import os
import sys
import threading


def _is_noop_line(frame):
    """A line holding only a block keyword executes no instruction that can raise, and CPython delivers asynchronous
    exceptions only at calls and backward jumps - an abort there exists only under a tracer."""
    return linecache.getline(frame.f_code.co_filename, frame.f_lineno).strip() in ("try:", "else:", "finally:")


class TraceFault:
    avoid_lines = frozenset()     # (filename, lineno) of statements no abort may land on (see DirtyProfile.restoring_lines)

    def __init__(self, repo_root, at_line, exc_factory):
        self.prefix = os.path.join(os.path.realpath(repo_root), "nbdime") + os.sep
        self.at = at_line
        self.count = 0
        self.fired = False
        self.where = None
        self.exc_factory = exc_factory
        self._files = {}

    def _mine(self, filename):
        r = self._files.get(filename)
        if r is None:
            r = self._files[filename] = os.path.realpath(filename).startswith(self.prefix) and "/tests/" not in filename
        return r

    def _global(self, frame, event, arg):
        if self._mine(frame.f_code.co_filename):
            return self._local
        return None

    def _local(self, frame, event, arg):
        if event == "line" and not self.fired:
            self.count += 1
            if self.count == self.at:
                if _is_noop_line(frame) or (frame.f_code.co_filename, frame.f_lineno) in self.avoid_lines:
                    # nothing real can strike on a bare `try:`, and no code can protect itself inside its own clean-up
                    # statement: the next statement it is.  (Decided here, at fire time: a counting pass and the faulted
                    # pass need not execute the same number of lines - caches warm up in between.)
                    self.at += 1
                    return self._local
                self.fired = True
                self.where = "%s:%d" % (os.path.relpath(frame.f_code.co_filename, self.prefix), frame.f_lineno)
                raise self.exc_factory()
        return self._local

    def __enter__(self):
        self._old = sys.gettrace()
        # threads the program starts while the fault is armed are traced too: an allocation failure can hit a worker
        # thread as well as the main one (and an exception raised there is the program's to bring home)
        self._old_threading = getattr(threading, "_trace_hook", None)
        threading.settrace(self._global)
        sys.settrace(self._global)
        return self

    def __exit__(self, *a):
        sys.settrace(self._old)
        threading.settrace(self._old_threading)
        return False


class LineCounter(TraceFault):
    """Count only (to learn how many instants an operation has)."""

    def __init__(self, repo_root):
        super().__init__(repo_root, -1, RuntimeError)


class FuncProfile(TraceFault):
    """Counting pass: lines executed per nbdime function (qualified by file) during one operation."""

    def __init__(self, repo_root):
        super().__init__(repo_root, -1, RuntimeError)
        self.per_func = {}

    def _local(self, frame, event, arg):
        if event == "line":
            self.count += 1
            key = "%s:%s" % (os.path.basename(frame.f_code.co_filename), frame.f_code.co_name)
            self.per_func[key] = self.per_func.get(key, 0) + 1
        return self._local


class FuncFault(TraceFault):
    """Raise at the k-th line event executed inside function `func` (file:name)."""

    def __init__(self, repo_root, func, k, exc_factory):
        super().__init__(repo_root, k, exc_factory)
        self.func = func

    def _local(self, frame, event, arg):
        if event == "line" and not self.fired:
            key = "%s:%s" % (os.path.basename(frame.f_code.co_filename), frame.f_code.co_name)
            if key == self.func:
                self.count += 1
                if self.count == self.at and _is_noop_line(frame):
                    self.at += 1
                elif self.count == self.at:
                    self.fired = True
                    self.where = "%s:%d" % (os.path.relpath(frame.f_code.co_filename, self.prefix), frame.f_lineno)
                    raise self.exc_factory()
        return self._local


class DirtyProfile(TraceFault):
    """Counting pass that records, for every line event, the nbdime function it belongs to, and samples a cheap
    fingerprint of process-global state: the instants at which a component differs from its value at the start
    although it is back to that value at the end are the windows in which an abort would leave in-flight global
    state behind.

    The line event that fires just before a component returns to its start value belongs to the statement that
    *restores* it (e.g. the assignment inside a `finally:`).  No code can protect itself against an asynchronous
    exception delivered inside its own clean-up statement, so those instants are never chosen as abort points.

    Line events of bare block keywords (`try:`, `else:`, `finally:`) execute no instruction that can raise, and
    CPython delivers asynchronous exceptions (signals -> KeyboardInterrupt) only at calls and backward jumps: in
    `flag = True` / `try:` / `    work()` nothing real can strike between the assignment and the protected
    region.  A tracer can; those instants are never chosen either (an abort planned there moves to the next line)."""

    def __init__(self, repo_root, fingerprint):
        super().__init__(repo_root, -1, RuntimeError)
        self.fp = fingerprint
        self.start = fingerprint()
        self.dirty = [[] for _ in self.start]
        self.funcs = []          # function key of every line event, in order
        self.noop = set()        # line events on bare block keywords
        self.where_of = []       # (filename, lineno) of every line event, in order

    def _local(self, frame, event, arg):
        if event == "line":
            self.count += 1
            self.funcs.append("%s:%s" % (os.path.basename(frame.f_code.co_filename), frame.f_code.co_name))
            self.where_of.append((frame.f_code.co_filename, frame.f_lineno))
            if _is_noop_line(frame):
                self.noop.add(self.count)
            now = self.fp()
            for i, v in enumerate(now):
                if v != self.start[i]:
                    self.dirty[i].append(self.count)
        return self._local

    def restoring_instants(self):
        out = set()
        for d in self.dirty:
            ds = set(d)
            out.update(c for c in d if (c + 1) not in ds)
        return out

    def restoring_lines(self):
        """Source lines of the restoring statements (for TraceFault.avoid_lines)."""
        return frozenset(self.where_of[c - 1] for c in self.restoring_instants() if 0 < c <= len(self.where_of))

    def transient_instants(self):
        end = self.fp()
        restoring = self.restoring_instants()
        out = []
        for i, v in enumerate(end):
            if v == self.start[i]:
                out.extend(c for c in self.dirty[i] if c not in restoring and c not in self.noop)
        return sorted(set(out))

    def avoid_restoring(self, at):
        """Move an abort point off a restoring statement (to the line event before it)."""
        restoring = self.restoring_instants()

        def leads_to_restore(i):
            # a restoring statement, or bare block keywords (`finally:`) with nothing but a restoring statement after them
            while i in self.noop:
                i += 1
            return i in restoring
        while leads_to_restore(at) and at > 1:
            at -= 1
        while at in self.noop and at < self.count:
            at += 1
        return at

    def kth_line_of(self, func, k):
        """Global index of the k-th line event inside function `func` (1-based), or None."""
        n = 0
        for idx, f in enumerate(self.funcs, 1):
            if f == func:
                n += 1
                if n == k:
                    return idx
        return None
