"""'An interrupt or allocation failure at an arbitrary instant' without touching the sources:
count line events in files under <repo>/nbdime/ during one operation and raise a chosen
exception at the N-th."""
import os
import sys


class TraceFault:
    def __init__(self, repo_root, at_line, exc_factory):
        self.prefix = os.path.join(os.path.realpath(repo_root), "nbdime") + os.sep
        self.at = at_line
        self.count = 0
        self.fired = False
        self.where = None
        self.exc_factory = exc_factory
        self._files = {}

    def _mine(self, filename):
        r = self._files.get(filename)
        if r is None:
            r = self._files[filename] = os.path.realpath(filename).startswith(self.prefix) and "/tests/" not in filename
        return r

    def _global(self, frame, event, arg):
        if self._mine(frame.f_code.co_filename):
            return self._local
        return None

    def _local(self, frame, event, arg):
        if event == "line" and not self.fired:
            self.count += 1
            if self.count == self.at:
                self.fired = True
                self.where = "%s:%d" % (os.path.relpath(frame.f_code.co_filename, self.prefix), frame.f_lineno)
                raise self.exc_factory()
        return self._local

    def __enter__(self):
        self._old = sys.gettrace()
        sys.settrace(self._global)
        return self

    def __exit__(self, *a):
        sys.settrace(self._old)
        return False


class LineCounter(TraceFault):
    """Count only (to learn how many instants an operation has)."""

    def __init__(self, repo_root):
        super().__init__(repo_root, -1, RuntimeError)


class FuncProfile(TraceFault):
    """Counting pass: lines executed per nbdime function (qualified by file) during one operation."""

    def __init__(self, repo_root):
        super().__init__(repo_root, -1, RuntimeError)
        self.per_func = {}

    def _local(self, frame, event, arg):
        if event == "line":
            self.count += 1
            key = "%s:%s" % (os.path.basename(frame.f_code.co_filename), frame.f_code.co_name)
            self.per_func[key] = self.per_func.get(key, 0) + 1
        return self._local


class FuncFault(TraceFault):
    """Raise at the k-th line event executed inside function `func` (file:name)."""

    def __init__(self, repo_root, func, k, exc_factory):
        super().__init__(repo_root, k, exc_factory)
        self.func = func

    def _local(self, frame, event, arg):
        if event == "line" and not self.fired:
            key = "%s:%s" % (os.path.basename(frame.f_code.co_filename), frame.f_code.co_name)
            if key == self.func:
                self.count += 1
                if self.count == self.at:
                    self.fired = True
                    self.where = "%s:%d" % (os.path.relpath(frame.f_code.co_filename, self.prefix), frame.f_lineno)
                    raise self.exc_factory()
        return self._local


class DirtyProfile(TraceFault):
    """Counting pass that also samples a cheap fingerprint of process-global state at every line event and
    reports the instants at which a component differs from its value at the start although it is back to
    that value at the end: the windows in which an abort would leave in-flight global state behind."""

    def __init__(self, repo_root, fingerprint):
        super().__init__(repo_root, -1, RuntimeError)
        self.fp = fingerprint
        self.start = fingerprint()
        self.dirty = [[] for _ in self.start]

    def _local(self, frame, event, arg):
        if event == "line":
            self.count += 1
            now = self.fp()
            for i, v in enumerate(now):
                if v != self.start[i]:
                    self.dirty[i].append(self.count)
        return self._local

    def transient_instants(self):
        end = self.fp()
        out = []
        for i, v in enumerate(end):
            if v == self.start[i]:
                out.extend(self.dirty[i])
        return sorted(set(out))
