"""Check driver: tiers, corpus replay, seeded batch over forked runs, minimisation, replay
verification in a fresh interpreter, known findings, evidence."""
import argparse
import importlib
import json
import os
import subprocess
import sys
import time

from . import core
from .core import HarnessError, Violation

EXIT_OK, EXIT_VIOLATION, EXIT_HARNESS = 0, 1, 2


def _engine(prop):
    return importlib.import_module("props.%s" % prop.lower())


def _exec_trace(engine, trace, scratch=None):
    return engine.execute(trace, scratch)


def _gen_and_exec(engine, prop, verif_seed, index, tier_cfg, scratch=None):
    seed = core.run_seed(prop, verif_seed, index)
    import random
    rng = random.Random(seed)
    trace = engine.generate(rng, index, tier_cfg)
    trace.setdefault("format", 1)
    trace["property"] = prop
    trace["verif_seed"] = verif_seed
    trace["run_index"] = index
    trace["run_seed"] = "%016x" % seed
    res = engine.execute(trace, scratch)
    if res.get("violations") or index < 3:
        res["trace"] = trace
    return res


class Agg:
    def __init__(self):
        self.counters = {}
        self.distinct = {}
        self.samples = []
        self.digests = {}
        self.runs = 0
        self.events = 0

    def add(self, index, res):
        self.runs += 1
        for k, v in (res.get("stats") or {}).items():
            self.counters[k] = self.counters.get(k, 0) + v
        for k, vals in (res.get("distinct") or {}).items():
            self.distinct.setdefault(k, set()).update(vals)
        self.digests[index] = res.get("digest", "")
        self.events += res.get("events", 0)
        if res.get("sample") is not None and len(self.samples) < 3:
            self.samples.append(res["sample"])

    def batch_digest(self):
        return core.sha([[i, self.digests[i]] for i in sorted(self.digests)])


def _fails_with(engine, klass, timeout):
    def fails(trace):
        r = core.run_one_forked(_exec_trace, (engine, trace), timeout)
        if "harness_error" in r:
            return False
        return any(Violation.klass(v) == klass for v in r["ok"].get("violations", []))
    return fails


def _replay_file(prop):
    d = os.path.join(core.VERIF, "replays", prop)
    os.makedirs(d, exist_ok=True)
    return d


def _verify_in_fresh_interpreter(prop, path):
    """Replaying the file in a fresh interpreter must fail the same way."""
    env = dict(os.environ)
    env["VERIF_NO_REEXEC_NOTE"] = "1"
    p = subprocess.run([sys.executable, os.path.join(core.VERIF, "check"), prop, "--replay", path, "--machine"],
                       stdout=subprocess.PIPE, stderr=subprocess.PIPE, env=env, timeout=600)
    try:
        out = json.loads(p.stdout.decode().strip().splitlines()[-1])
    except Exception:
        raise HarnessError("replay of %s in a fresh interpreter gave no verdict: rc=%s\n%s\n%s" % (
            path, p.returncode, p.stdout.decode()[-2000:], p.stderr.decode()[-2000:]))
    return out


def report_violation(engine, prop, trace, violation, tier_cfg, findings, printed_known):
    """Minimise, write replay, verify, print.  Returns True if it counts as a new violation."""
    known = core.match_finding(findings, violation)
    if known is not None:
        key = core.canon(known.get("signature"))
        if key not in printed_known:
            printed_known.add(key)
            print("KNOWN-FINDING: property=%s %s" % (prop, known.get("what", "")))
        return False
    klass = Violation.klass(violation)
    timeout = tier_cfg.get("timeout", 120)
    fails = _fails_with(engine, klass, timeout)
    orig = json.loads(json.dumps(trace))
    budget = core.Budget(tier_cfg.get("shrink_steps", 400), tier_cfg.get("shrink_seconds", 90))
    try:
        small = engine.shrink(json.loads(json.dumps(trace)), fails, budget)
    except Exception as e:  # minimiser trouble must not hide the violation
        print("note: minimiser failed (%r); reporting the unminimised trace" % (e,), file=sys.stderr)
        small = orig
    d = _replay_file(prop)
    base = "%s-%s" % (trace.get("run_seed", "corpus"), violation["oracle"])

    def emit(path, cand, note):
        print("VIOLATION property=%s replay=%s" % (prop, path))
        print("  oracle=%s sig=%s" % (violation["oracle"], core.canon(violation["sig"])))
        print("  detail: %s" % violation.get("detail", "")[:600])
        print("  minimised: %s -> %s steps" % (engine.size(orig), engine.size(cand)))
        if note:
            print("  " + note)
        return True

    inexact = None
    for cand, suffix in ((small, ".min.json"), (orig, ".orig.json")):
        hits, last = 0, None
        for attempt in range(3):
            r = core.run_one_forked(_exec_trace, (engine, cand), timeout)
            if "harness_error" in r:
                continue
            vs = [v for v in r["ok"].get("violations", []) if Violation.klass(v) == klass]
            if vs:
                hits += 1
                last = (vs[0], r["ok"].get("digest"))
                if attempt == 0:
                    break
        if not last:
            continue
        cand = dict(cand)
        cand["violation"], cand["digest"] = last
        cand["minimised_from"] = {"ops": engine.size(orig), "to": engine.size(cand)}
        path = os.path.join(d, base + suffix)
        with open(path, "w") as f:
            json.dump(cand, f, indent=1, sort_keys=True)
        verdict = _verify_in_fresh_interpreter(prop, path)
        if verdict.get("reproduced") and verdict.get("digest") == cand["digest"]:
            return emit(path, cand, None)
        if inexact is None:
            inexact = (path, cand, verdict)
    if inexact is not None:
        # Observed in the batch and again in a fork of this process, but not bit-for-bit in a fresh interpreter:
        # the violating behaviour depends on process state the simulator does not control (e.g. object addresses).
        path, cand, verdict = inexact
        return emit(path, cand, "replay-note: observed in the batch and again when re-executed in a fork of the check process, but a "
                    "fresh interpreter gave reproduced=%s digest-match=%s; the code under test depends on process state outside the "
                    "simulator's control (e.g. memory layout)" % (verdict.get("reproduced"), verdict.get("digest") == cand["digest"]))
    # Nothing reproduced, not even in a fork of this process.  The determinism self-test shows that the harness replays
    # the unchanged tree bit for bit, so the likelier source is the code under test (e.g. behaviour keyed on object
    # addresses).  The violation was observed against real code: report it, with the original trace, flagged as such.
    path = os.path.join(d, base + ".orig.json")
    cand = dict(orig, violation=violation, digest=None, minimised_from={"ops": engine.size(orig), "to": engine.size(orig)})
    with open(path, "w") as f:
        json.dump(cand, f, indent=1, sort_keys=True)
    return emit(path, cand, "replay-note: observed once in the batch (run %s) but not again when its trace was re-executed %d times; "
                "the violating behaviour is not a function of the trace alone (code under test depends on memory layout or "
                "similar). Re-run the batch with the same VERIF_SEED to observe it again." % (trace.get("run_index"), 6))


def write_evidence(engine, prop, tier, seed, agg, wall, nviol, extra_notes=None):
    cov, rule, assumptions = engine.coverage(agg)
    coverage = {
        "evaluations": agg.runs,
        "distinct_nontrivial": cov.pop("distinct_nontrivial"),
        "rule": rule,
        "samples": agg.samples or [{"note": "no sample captured"}],
        "seam_events": agg.events,
        "runs_per_hour": int(agg.runs / wall * 3600) if wall > 0 else 0,
        "seeds_per_hour": int(agg.runs / wall * 3600) if wall > 0 else 0,
        "batch_digest": agg.batch_digest(),
        "counters": dict(sorted(agg.counters.items())),
        "distinct_measures": {k: len(v) for k, v in sorted(agg.distinct.items())},
    }
    coverage.update(cov)
    if extra_notes:
        coverage["notes"] = extra_notes
    ev = {
        "property_id": prop,
        "tier": tier,
        "seed": seed,
        "level": engine.LEVEL,
        "coverage": coverage,
        "assumptions": assumptions,
        "wall_s": round(wall, 2),
        "violations": nviol,
    }
    os.makedirs(os.path.join(core.VERIF, "evidence"), exist_ok=True)
    path = os.path.join(core.VERIF, "evidence", "%s.json" % prop)
    tmp = path + ".tmp"
    with open(tmp, "w") as f:
        json.dump(ev, f, indent=1, sort_keys=True)
    os.replace(tmp, path)
    return path


def main(argv=None):
    ap = argparse.ArgumentParser(prog="check")
    ap.add_argument("prop")
    ap.add_argument("--tier", default=os.environ.get("VERIF_TIER") or "quick", choices=["quick", "thorough"])
    ap.add_argument("--seed", type=int, default=None)
    ap.add_argument("--jobs", type=int, default=None)
    ap.add_argument("--runs", type=int, default=None)
    ap.add_argument("--replay", default=None)
    ap.add_argument("--machine", action="store_true", help="with --replay: print one JSON verdict line")
    ap.add_argument("--no-corpus", action="store_true")
    ap.add_argument("--no-evidence", action="store_true")
    ap.add_argument("--digests", default=None, help="write per-run digests to this file (self-test)")
    ap.add_argument("--keep-going", action="store_true")
    args = ap.parse_args(argv)
    prop = args.prop.upper()
    seed = args.seed if args.seed is not None else int(os.environ.get("VERIF_SEED") or core.DEFAULT_SEED)
    jobs = args.jobs or int(os.environ.get("VERIF_JOBS") or 0) or min(16, os.cpu_count() or 4)
    try:
        return _main(prop, args, seed, jobs)
    except HarnessError as e:
        print("HARNESS-ERROR property=%s %s" % (prop, e))
        return EXIT_HARNESS
    except Exception:
        # e.g. the tree under test does not import: a broken harness run is never a pass and never a VIOLATION
        import traceback
        print("HARNESS-ERROR property=%s unexpected exception in the driver:\n%s" % (prop, traceback.format_exc()))
        return EXIT_HARNESS
    finally:
        core.cleanup_scratch()


def _main(prop, args, seed, jobs):
    engine = _engine(prop)
    engine.prepare()
    try:
        return _main2(engine, prop, args, seed, jobs)
    finally:
        if hasattr(engine, "teardown"):
            engine.teardown()


def _main2(engine, prop, args, seed, jobs):
    tier_cfg = dict(engine.TIERS[args.tier])
    tier_cfg["tier"] = args.tier
    timeout = tier_cfg.get("timeout", 120)
    findings = core.load_findings(prop)

    if args.replay:
        trace = json.load(open(args.replay))
        r = core.run_one_forked(_exec_trace, (engine, trace), timeout)
        if "harness_error" in r:
            raise HarnessError(r["harness_error"])
        res = r["ok"]
        want = trace.get("violation")
        vs = res.get("violations", [])
        if want:
            hit = [v for v in vs if Violation.klass(v) == Violation.klass(want)]
        else:
            hit = vs
        if args.machine:
            print(json.dumps({"reproduced": bool(hit), "digest": res.get("digest"), "violations": vs}))
            return EXIT_VIOLATION if hit else EXIT_OK
        if hit:
            print("VIOLATION property=%s replay=%s" % (prop, os.path.abspath(args.replay)))
            for v in hit:
                print("  oracle=%s sig=%s\n  detail: %s" % (v["oracle"], core.canon(v["sig"]), v["detail"][:800]))
            print("  digest=%s (recorded %s)" % (res.get("digest"), trace.get("digest")))
            return EXIT_VIOLATION
        print("replay %s: no violation (digest %s)" % (args.replay, res.get("digest")))
        return EXIT_OK

    t0 = time.monotonic()
    nruns = args.runs if args.runs is not None else tier_cfg["runs"]
    wall_cap = float(os.environ.get("VERIF_WALL_CAP") or tier_cfg.get("wall_cap", 1e9))
    agg = Agg()
    printed_known = set()
    new_violations = 0
    seen_classes = set()
    harness_errors = []
    pending_reports = []

    def on_result(job, r):
        if "harness_error" in r:
            harness_errors.append("%r: %s" % (job.key, r["harness_error"]))
            return len(harness_errors) < 5
        res = r["ok"]
        kind, idx = job.key
        if kind == "run":
            agg.add(idx, res)
        for v in res.get("violations", []):
            k = Violation.klass(v)
            if k in seen_classes:
                continue
            seen_classes.add(k)
            known = core.match_finding(findings, v)
            if known is not None:
                # a recorded finding: named once, never counted towards the violations that end a batch early
                key = core.canon(known.get("signature"))
                if key not in printed_known:
                    printed_known.add(key)
                    print("KNOWN-FINDING: property=%s %s" % (prop, known.get("what", "")))
                continue
            pending_reports.append((res.get("trace") or job.args[1], v))
        if kind == "run" and time.monotonic() - t0 > wall_cap:
            return False
        return len([1 for _ in pending_reports]) < 6 or args.keep_going

    # 1. corpus (regression replays of every defect ever found), independent of the seed
    jobs_list = []
    cdir = os.path.join(core.VERIF, "corpus", prop)
    ncorpus = 0
    if not args.no_corpus and os.path.isdir(cdir):
        for name in sorted(os.listdir(cdir)):
            if name.endswith(".json"):
                trace = json.load(open(os.path.join(cdir, name)))
                jobs_list.append(core.Job(("corpus", name), _exec_trace, (engine, trace), timeout))
                ncorpus += 1

    def all_jobs():
        for j in jobs_list:
            yield j
        for i in range(nruns):
            yield core.Job(("run", i), _gen_and_exec, (engine, prop, seed, i, tier_cfg), timeout)

    core.run_forked(all_jobs(), jobs, on_result)

    if harness_errors and not pending_reports:
        raise HarnessError("; ".join(harness_errors)[:4000])

    for trace, v in pending_reports[:4]:
        if report_violation(engine, prop, trace, v, tier_cfg, findings, printed_known):
            new_violations += 1
    if harness_errors:
        # runs that completed found violations: those stand whatever happened to other runs (a run child that exceeded
        # its wall clock is usually the same changed code being pathologically slow on another input)
        print("note: %d run(s) ended in a harness error besides: %s" % (len(harness_errors), "; ".join(harness_errors)[:300]))
        if not new_violations:
            raise HarnessError("; ".join(harness_errors)[:4000])
    wall = time.monotonic() - t0
    if args.digests:
        with open(args.digests, "w") as f:
            json.dump({str(i): d for i, d in sorted(agg.digests.items())}, f)
    if hasattr(engine, "self_check"):
        problems = engine.self_check(agg, tier_cfg)
        if problems and agg.runs >= tier_cfg["runs"]:
            raise HarnessError("reach probes stuck at zero: %s" % ", ".join(problems))
    if not args.no_evidence:
        path = write_evidence(engine, prop, args.tier, seed, agg, wall, new_violations,
                              extra_notes={"corpus_replays": ncorpus, "jobs": jobs,
                                           "runs_requested": nruns})
    print("%s %s: %d runs (+%d corpus), %d seam events, %.1fs, batch-digest %s" % (
        prop, args.tier, agg.runs, ncorpus, agg.events, wall, agg.batch_digest()[:16]))
    if new_violations:
        return EXIT_VIOLATION
    return EXIT_OK
