"""A virtual-time asyncio event loop with fake file descriptors.

* time() is virtual; when nothing is runnable the clock jumps to the next timer, so hour-long
  timeouts cost microseconds.
* There is no selector: add_reader/add_writer register callbacks for *fake* descriptors whose
  readiness the simulated network decides (fd_ready).
* call_soon order is FIFO as asyncio guarantees (the real BaseEventLoop machinery runs); only I/O
  readiness order, timing and chunking are the simulator's choice.
"""
import asyncio
import asyncio.base_events


class Quiescent(Exception):
    """Nothing is runnable and no timer is pending: the simulated system is idle forever."""


class _ClockSelector:
    """Stands in for the selector: 'waiting' for I/O just advances the virtual clock."""

    def __init__(self, loop):
        self.loop = loop

    def select(self, timeout):
        loop = self.loop
        if timeout is None:
            # no ready callbacks, no timers: only an external event could wake the system
            raise Quiescent()
        if timeout > 0:
            loop._vtime += timeout
        loop.iterations += 1
        if loop.max_iterations and loop.iterations > loop.max_iterations:
            raise RuntimeError("simulation exceeded %d loop iterations" % loop.max_iterations)
        return []

    def close(self):
        pass


class SimLoop(asyncio.base_events.BaseEventLoop):
    def __init__(self, max_iterations=200000):
        super().__init__()
        self._vtime = 0.0
        self._selector = _ClockSelector(self)
        self._readers = {}
        self._writers = {}
        self.iterations = 0
        self.max_iterations = max_iterations
        self._clock_resolution = 1e-9
        self.on_add_writer = None     # SimNet hook: a writer was registered for fd

    # --- clock
    def time(self):
        return self._vtime

    # --- BaseEventLoop plumbing
    def _process_events(self, event_list):
        pass

    def _write_to_self(self):
        pass

    def _make_self_pipe(self):
        pass

    def _close_self_pipe(self):
        pass

    # --- fake descriptors
    @staticmethod
    def _fdnum(fd):
        return fd if isinstance(fd, int) else fd.fileno()

    def add_reader(self, fd, callback, *args):
        self._readers[self._fdnum(fd)] = (callback, args)

    def remove_reader(self, fd):
        return self._readers.pop(self._fdnum(fd), None) is not None

    def add_writer(self, fd, callback, *args):
        n = self._fdnum(fd)
        self._writers[n] = (callback, args)
        if self.on_add_writer is not None:
            self.on_add_writer(n)

    def remove_writer(self, fd):
        return self._writers.pop(self._fdnum(fd), None) is not None

    def fd_ready(self, fd, writable=False):
        """Called by the simulated network: descriptor fd became readable (or writable)."""
        table = self._writers if writable else self._readers
        ent = table.get(fd)
        if ent is not None:
            cb, args = ent
            self.call_soon(self._fire, fd, writable, cb, args)

    def _fire(self, fd, writable, cb, args):
        # the registration may have been removed between scheduling and running (as with a real selector)
        table = self._writers if writable else self._readers
        if table.get(fd) == (cb, args):
            cb(*args)

    # --- executors: no real threads.  A function handed to an executor runs later on the loop, after a virtual
    # latency chosen by the simulator, so that other connections' events interleave deterministically.
    executor_latencies = (0.0, 0.001, 0.05, 0.5)

    def run_in_executor(self, executor, func, *args):
        fut = self.create_future()
        self._exec_seq = getattr(self, "_exec_seq", 0) + 1
        delay = self.executor_latencies[(self._exec_seq * 7 + getattr(self, "exec_salt", 0)) % len(self.executor_latencies)]

        def run():
            if fut.cancelled():
                return
            try:
                fut.set_result(func(*args))
            except BaseException as e:   # noqa
                fut.set_exception(e)
        self.call_later(delay, run)
        return fut

    # never touch real sockets / subprocess watchers
    async def shutdown_default_executor(self, timeout=None):
        return None
