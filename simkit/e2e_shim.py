"""Stand-in for the `git-nbmergedriver` console script in C08's end-to-end arm: started by a real
`git merge`, it installs the same SimFS seams from a plan file, records seam events and the
captured library result to a log that survives a kill, and calls the real driver main.
A 'kill' fault here is a real SIGKILL of this process."""
import json
import os
import signal
import sys


def main():
    plan_file = os.environ.get("VERIF_E2E_PLAN")
    log_file = os.environ.get("VERIF_E2E_LOG")
    root = os.environ.get("VERIF_E2E_ROOT")
    plan = json.load(open(plan_file)) if plan_file and os.path.exists(plan_file) else []
    from simkit import simfs
    from simkit.core import EventLog, install_outside_guard
    if root:
        install_outside_guard([root])
    import nbdime.nbmergeapp as app
    import nbdime.prettyprint as pp
    from nbdime.vcs.git import mergedriver

    logf = open(log_file, "a") if log_file else None

    def record(obj):
        if logf:
            logf.write(json.dumps(obj) + "\n")
            logf.flush()
            os.fsync(logf.fileno())

    argv = sys.argv[1:]
    # argv: merge %O %A %B %L %P
    names = {}
    if len(argv) >= 6:   # merge [flags] %O %A %B %L %P
        names = {os.path.realpath(argv[-5]): "base", os.path.realpath(argv[-4]): "local", os.path.realpath(argv[-3]): "remote"}

    def classify(p):
        if p in names:
            return names[p]
        if (os.sep + "tmp" + os.sep) in p:
            return "tmp:" + os.path.basename(p)
        return "misc"

    class Log(EventLog):
        def ev(self, _kind, /, **data):
            if _kind == "seam":
                record({"seam": data["e"]})
            elif _kind == "fault":
                record({"fault": data})
            return super().ev(_kind, **data)

    fs = simfs.SimFS(Log(keep=False), root or "/", classify, plan)
    real_raise = fs.raise_fault

    def raise_fault(fault):
        if fault == "kill":
            record({"killed": True})
            os.kill(os.getpid(), signal.SIGKILL)
        return real_raise(fault)
    fs.raise_fault = raise_fault

    orig_merge = app.merge_notebooks

    def wrapped(b, l, r, args=None):
        fs.mark("merge_called")
        merged, decisions = orig_merge(b, l, r, args)
        record({"captured": {"merged": json.loads(json.dumps(merged)), "conflict": any(d.conflict for d in decisions)}})
        fs.mark("merge_returned")
        return merged, decisions
    app.merge_notebooks = wrapped
    import tempfile
    tempfile.gettempdir()      # probe the default temp directory outside the seams (random file names)
    fs.install()
    pp.Popen = fs.popen
    sys.argv[0] = "git-nbmergedriver"
    try:
        rc = mergedriver.main(argv)
    finally:
        fs.uninstall()
    record({"exit": rc})
    sys.exit(rc)


if __name__ == "__main__":
    main()
