"""simkit core: seeds, event log + digest, fork-per-run scheduler, ddmin, replay files,
known findings, evidence.

One integer (VERIF_SEED) decides everything: run i of property P gets
seed_i = SHA256("P|VERIF_SEED|i")[:8]; a run's content is independent of the number of
workers and of which worker picks it up.  Logging never draws from a PRNG and never reads a
real clock.
"""
import errno
import hashlib
import json
import os
import random
import selectors
import shutil
import signal
import sys
import time
import traceback

VERIF = os.path.dirname(os.path.dirname(os.path.abspath(__file__)))
REPO = os.environ.get("VERIF_REPO", "/repo")
DEFAULT_SEED = 20261004


class HarnessError(Exception):
    """The machinery, not nbdime, failed (timeout, lost worker, non-reproducing violation)."""


# ----------------------------------------------------------------------------- seeds

def run_seed(prop, verif_seed, index):
    h = hashlib.sha256(("%s|%d|%d" % (prop, verif_seed, index)).encode()).digest()
    return int.from_bytes(h[:8], "big")


def sub_rng(seed, label):
    h = hashlib.sha256(("%d|%s" % (seed, label)).encode()).digest()
    return random.Random(int.from_bytes(h[:8], "big"))


# ----------------------------------------------------------------------------- canonical JSON

def canon(obj):
    """Canonical JSON text; keeps True / 1 / 1.0 apart (json does), sorts keys."""
    return json.dumps(obj, sort_keys=True, ensure_ascii=True, separators=(",", ":"), default=_default)


def _default(o):
    if isinstance(o, (set, frozenset)):
        return sorted(o)
    if isinstance(o, bytes):
        return {"__bytes__": o.hex()}
    if isinstance(o, tuple):
        return list(o)
    return repr(o)


def sha(obj):
    if not isinstance(obj, (bytes, str)):
        obj = canon(obj)
    if isinstance(obj, str):
        obj = obj.encode("utf-8", "surrogateescape")
    return hashlib.sha256(obj).hexdigest()


# ----------------------------------------------------------------------------- event log

class EventLog:
    """Hash-chained event log.  Every event is canonical JSON; the digest is the chain head."""

    def __init__(self, keep=True, subst=()):
        self._h = hashlib.sha256()
        self.n = 0
        self.keep = keep or bool(os.environ.get("VERIF_TRACE_DIR"))
        self.events = []
        self.subst = list(subst)  # (real_path, placeholder) pairs applied to the text

    def add_subst(self, real, placeholder):
        self.subst.append((real, placeholder))
        # longest first so nested dirs are replaced properly
        self.subst.sort(key=lambda p: -len(p[0]))

    def norm(self, text):
        for real, ph in self.subst:
            if real in text:
                text = text.replace(real, ph)
        return text

    def ev(self, _kind, /, **data):
        data["k"] = _kind
        text = self.norm(canon(data))
        self._h.update(text.encode())
        self._h.update(b"\n")
        self.n += 1
        if self.keep:
            self.events.append(text)
        return self.n - 1

    def digest(self):
        d = self._h.hexdigest()
        tdir = os.environ.get("VERIF_TRACE_DIR")
        if tdir:      # debugging aid: dump the full event log next to its digest
            with open(os.path.join(tdir, d + ".log"), "w") as f:
                f.write("\n".join(self.events) + "\n")
        return d


# ----------------------------------------------------------------------------- violations

class Violation(dict):
    """{'oracle': 'G4', 'sig': {...small, stable, minimisation-invariant...}, 'detail': '...'}"""

    def __init__(self, oracle, sig, detail=""):
        super().__init__(oracle=oracle, sig=sig, detail=str(detail)[:2000])

    @staticmethod
    def klass(v):
        return canon([v["oracle"], v["sig"]])


# ----------------------------------------------------------------------------- scratch

_SCRATCH_ROOT = None


def scratch_root():
    global _SCRATCH_ROOT
    if _SCRATCH_ROOT is None:
        base = os.environ.get("VERIF_SCRATCH")
        if not base:
            base = "/dev/shm" if os.path.isdir("/dev/shm") and os.access("/dev/shm", os.W_OK) else (os.environ.get("TMPDIR") or "/var/tmp")
        # sweep scratch areas left behind by checks that were killed (their pid is gone)
        try:
            for name in os.listdir(base):
                if name.startswith("nbdime-verif."):
                    pid = name.rsplit(".", 1)[1]
                    if pid.isdigit() and not os.path.exists("/proc/%d" % int(pid)):
                        shutil.rmtree(os.path.join(base, name), ignore_errors=True)
        except OSError:
            pass
        # (fixed width: the length of sandbox paths must not vary from run to run - they end up in request bodies)
        _SCRATCH_ROOT = os.path.join(base, "nbdime-verif.%08d" % os.getpid())
        os.makedirs(_SCRATCH_ROOT, exist_ok=True)
    return _SCRATCH_ROOT


def set_nested_scratch(path):
    """Inside a run child: give nested forks (passes of one scenario) their own scratch area."""
    global _SCRATCH_ROOT
    os.makedirs(path, exist_ok=True)
    _SCRATCH_ROOT = path


def cleanup_scratch():
    global _SCRATCH_ROOT
    if _SCRATCH_ROOT and os.path.isdir(_SCRATCH_ROOT):
        shutil.rmtree(_SCRATCH_ROOT, ignore_errors=True)
    _SCRATCH_ROOT = None


# ----------------------------------------------------------------------------- fork runner

class Job:
    __slots__ = ("key", "fn", "args", "timeout", "pid", "rfd", "buf", "t0", "scratch")

    def __init__(self, key, fn, args, timeout):
        self.key, self.fn, self.args, self.timeout = key, fn, args, timeout
        self.pid = self.rfd = None
        self.buf = bytearray()
        self.t0 = 0.0
        self.scratch = None


_GUARD_ROOTS = []


def guard_path(path):
    """The checks run as root, the programs under test are written for ordinary users: a run child refuses to remove,
    rename over or replace anything outside its scratch area (EPERM, as an unprivileged process would get) - a changed
    nbdime that writes "atomically" onto an output path like /dev/null must not damage the machine."""
    if not _GUARD_ROOTS:
        return
    try:
        p = os.path.abspath(os.fspath(path))
        if isinstance(p, bytes):
            p = os.fsdecode(p)
        d = os.path.join(os.path.realpath(os.path.dirname(p)), os.path.basename(p))
    except (TypeError, ValueError):
        return
    for root in _GUARD_ROOTS:
        if d == root or d.startswith(root + os.sep):
            return
    raise PermissionError(errno.EPERM, "Operation not permitted (outside the simulation's scratch area)", p)


def install_outside_guard(roots):
    """Wrap the destructive os-level calls of this (forked) process.  Seams installed later (SimFS) sit on top and
    call guard_path themselves for paths they do not manage."""
    _GUARD_ROOTS[:] = [os.path.realpath(r) for r in roots]

    def wrap1(fn):
        def guarded(path, *a, **kw):
            if kw.get("dir_fd") is None:
                guard_path(path)
            return fn(path, *a, **kw)
        guarded.__wrapped__ = fn
        return guarded

    def wrap2(fn):
        def guarded(src, dst, *a, **kw):
            if kw.get("src_dir_fd") is None and kw.get("dst_dir_fd") is None:
                guard_path(src)
                guard_path(dst)
            return fn(src, dst, *a, **kw)
        guarded.__wrapped__ = fn
        return guarded
    for name in ("remove", "unlink", "rmdir", "truncate"):
        setattr(os, name, wrap1(getattr(os, name)))
    for name in ("rename", "replace"):
        setattr(os, name, wrap2(getattr(os, name)))
    shutil.rmtree = wrap1(shutil.rmtree)


def _child_main(job, wfd):
    # new session so a timeout can kill helper processes (git ...) too
    try:
        os.setsid()
    except OSError:
        pass
    import faulthandler
    import gc
    # When the cyclic collector runs depends on allocation counters inherited from the parent, which differ with the
    # number of workers: finalisers (e.g. Tornado closing a dropped connection) would fire at different points of a
    # run.  The simulator owns that choice: automatic collection is off, engines call gc.collect() at fixed points.
    gc.collect()
    gc.disable()
    if not os.environ.get("VERIF_DEBUG"):
        # helper processes (git ...) spawned by the system under test inherit fd 2; keep the check's output clean
        dn = os.open(os.devnull, os.O_WRONLY)
        os.dup2(dn, 2)
        os.close(dn)
    faulthandler.enable()
    faulthandler.dump_traceback_later(max(5, job.timeout - 2), exit=False)
    if not _GUARD_ROOTS:
        install_outside_guard([scratch_root(), job.scratch])
    try:
        try:
            res = job.fn(*job.args, scratch=job.scratch)
            out = {"ok": res}
        except BaseException:
            out = {"harness_error": traceback.format_exc()}
        data = json.dumps(out, default=_default).encode()
    except BaseException:
        data = json.dumps({"harness_error": "unserialisable result: " + traceback.format_exc()}).encode()
    try:
        with os.fdopen(wfd, "wb") as w:
            w.write(data)
    finally:
        sys.stdout.flush()
        sys.stderr.flush()
        os._exit(0)


def run_forked(jobs_iter, nworkers, on_result):
    """Run jobs (an iterator of Job) each in a fork of this process, nworkers at a time.

    on_result(job, result_dict) is called in the parent, in completion order; result_dict is
    {'ok': ...} or {'harness_error': text}.  on_result may return False to stop launching.
    """
    sel = selectors.DefaultSelector()
    active = {}
    launching = True
    it = iter(jobs_iter)
    root = scratch_root()
    seq = 0

    def launch(job):
        nonlocal seq
        seq += 1
        job.scratch = os.path.join(root, "j%06d" % seq)
        os.makedirs(job.scratch)
        r, w = os.pipe()
        sys.stdout.flush()
        sys.stderr.flush()
        # a faulthandler watchdog is a thread: forking with one armed deadlocks the child when it re-arms
        import faulthandler
        faulthandler.cancel_dump_traceback_later()
        pid = os.fork()
        if pid == 0:
            os.close(r)
            for j in active.values():
                try:
                    os.close(j.rfd)
                except OSError:
                    pass
            _child_main(job, w)
        os.close(w)
        os.set_blocking(r, False)
        job.pid, job.rfd, job.t0 = pid, r, time.monotonic()
        active[r] = job
        sel.register(r, selectors.EVENT_READ, job)

    def finish(job, result):
        nonlocal launching
        sel.unregister(job.rfd)
        os.close(job.rfd)
        del active[job.rfd]
        try:
            os.killpg(job.pid, signal.SIGKILL)
        except OSError:
            pass
        try:
            os.waitpid(job.pid, 0)
        except OSError:
            pass
        shutil.rmtree(job.scratch, ignore_errors=True)
        if on_result(job, result) is False:
            launching = False

    try:
        while True:
            while launching and len(active) < nworkers:
                try:
                    job = next(it)
                except StopIteration:
                    launching = False
                    break
                launch(job)
            if not active:
                break
            for key, _ in sel.select(timeout=0.5):
                job = key.data
                try:
                    chunk = os.read(job.rfd, 1 << 20)
                except BlockingIOError:
                    continue
                if chunk:
                    job.buf += chunk
                    continue
                # EOF
                if job.buf:
                    try:
                        res = json.loads(bytes(job.buf))
                    except ValueError:
                        res = {"harness_error": "garbled result from run child"}
                else:
                    try:
                        _, st = os.waitpid(job.pid, os.WNOHANG)
                    except OSError:
                        st = -1
                    res = {"harness_error": "run child died without a result (wait status %r)" % (st,)}
                finish(job, res)
            now = time.monotonic()
            for job in list(active.values()):
                if now - job.t0 > job.timeout:
                    finish(job, {"harness_error": "run child exceeded %ss wall clock (key=%r)" % (job.timeout, job.key)})
    finally:
        for job in list(active.values()):
            try:
                os.killpg(job.pid, signal.SIGKILL)
            except OSError:
                pass
            try:
                os.waitpid(job.pid, 0)
            except OSError:
                pass
            try:
                os.close(job.rfd)
            except OSError:
                pass
            shutil.rmtree(job.scratch, ignore_errors=True)
        sel.close()


def run_one_forked(fn, args, timeout):
    out = []
    run_forked([Job("one", fn, args, timeout)], 1, lambda j, r: out.append(r))
    return out[0]


# ----------------------------------------------------------------------------- ddmin

def ddmin(items, test, budget):
    """Classic ddmin on a list.  test(sublist) -> True iff the failure persists.
    budget: object with .left() -> bool and .spend()."""
    n = 2
    items = list(items)
    while len(items) >= 2 and budget.left():
        chunk = max(1, len(items) // n)
        subsets = [items[i:i + chunk] for i in range(0, len(items), chunk)]
        reduced = False
        # try complements first (dropping one chunk)
        for i in range(len(subsets)):
            if not budget.left():
                break
            comp = [x for j, s in enumerate(subsets) if j != i for x in s]
            budget.spend()
            if test(comp):
                items = comp
                n = max(n - 1, 2)
                reduced = True
                break
        if not reduced:
            if chunk == 1:
                break
            n = min(len(items), n * 2)
    if len(items) == 1 and budget.left():
        budget.spend()
        if test([]):
            items = []
    return items


class Budget:
    def __init__(self, n, seconds):
        self.n = n
        self.deadline = time.monotonic() + seconds

    def left(self):
        return self.n > 0 and time.monotonic() < self.deadline

    def spend(self):
        self.n -= 1


# ----------------------------------------------------------------------------- known findings

def load_findings(prop):
    path = os.path.join(VERIF, "known_findings.json")
    if not os.path.exists(path):
        return []
    return [f for f in json.load(open(path)) if f.get("property") == prop]


def match_finding(findings, violation):
    """Return the 'known' entry whose oracle and signature-subset match this violation."""
    for f in findings:
        if f.get("status") != "known":
            continue
        if f.get("oracle") != violation["oracle"]:
            continue
        sig = violation.get("sig") or {}
        if all(sig.get(k) == v for k, v in (f.get("signature") or {}).items()):
            return f
    return None


class NamedImports:
    """`from subprocess import Popen` (or `from io import open`) binds the real object in the importing module, where a
    patch of the defining module's attribute does not reach.  This context manager re-binds every such name found in
    the loaded modules of the package under test for the duration of a simulated call."""

    def __init__(self, real, replacement, package="nbdime"):
        self.real, self.replacement, self.package = real, replacement, package
        self.patched = []

    def __enter__(self):
        for name, mod in list(sys.modules.items()):
            if mod is None or not (name == self.package or name.startswith(self.package + ".")):
                continue
            for attr, val in list(vars(mod).items()):
                if val is self.real:
                    setattr(mod, attr, self.replacement)
                    self.patched.append((mod, attr))
        return self

    def __exit__(self, *a):
        for mod, attr in self.patched:
            setattr(mod, attr, self.real)
        self.patched = []
        return False
