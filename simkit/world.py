"""The sandbox a run lives in: HOME / XDG / TMPDIR / PATH / GIT_* / JUPYTER_* all point inside the
run's scratch directory; a per-run bin/ directory decides which helper binaries exist."""
import os
import shutil
import subprocess

REAL = {}
for _name in ("git", "diff3", "diff", "cat", "sed", "sh"):
    _p = shutil.which(_name, path="/usr/bin:/bin:/usr/local/bin")
    if _p:
        REAL[_name] = os.path.realpath(_p) if _name != "git" else _p


_REAL_POPEN = subprocess.Popen   # captured at import: harness-side spawns never pass through a simulated seam


class _Done:
    def __init__(self, rc, out, err):
        self.returncode, self.stdout, self.stderr = rc, out, err


def real_run(argv, cwd=None, env=None, input=None):
    p = _REAL_POPEN(argv, cwd=cwd, env=env, stdin=subprocess.PIPE if input is not None else subprocess.DEVNULL,
                    stdout=subprocess.PIPE, stderr=subprocess.PIPE)
    out, err = p.communicate(input)
    return _Done(p.returncode, out, err)


class World:
    def __init__(self, scratch, helpers=("git", "diff3", "diff"), clock=1000000000):
        self.root = os.path.realpath(scratch)
        self.home = os.path.join(self.root, "home")
        self.tmp = os.path.join(self.root, "tmp")
        self.bin = os.path.join(self.root, "bin")
        self.jup = os.path.join(self.root, "jupyter")
        self.work = os.path.join(self.root, "work")
        self.xdg = os.path.join(self.home, ".config")
        for d in (self.home, self.tmp, self.bin, self.jup, self.work, self.xdg):
            os.makedirs(d, exist_ok=True)
        self.clock = clock
        self.helpers = tuple(helpers)
        for h in helpers:
            dst = os.path.join(self.bin, h)
            if not os.path.lexists(dst):
                os.symlink(REAL[h], dst)
        self.env = {
            "HOME": self.home,
            "XDG_CONFIG_HOME": self.xdg,
            "TMPDIR": self.tmp,
            "PATH": self.bin,
            "TZ": "UTC",
            "LC_ALL": "C",
            "LANG": "C",
            "GIT_CONFIG_NOSYSTEM": "1",
            "GIT_TERMINAL_PROMPT": "0",
            "GIT_AUTHOR_NAME": "Sim", "GIT_AUTHOR_EMAIL": "sim@example.invalid",
            "GIT_COMMITTER_NAME": "Sim", "GIT_COMMITTER_EMAIL": "sim@example.invalid",
            "GIT_PYTHON_REFRESH": "quiet",
            "GIT_PYTHON_GIT_EXECUTABLE": os.path.join(self.bin, "git") if "git" in helpers else "git",
            "JUPYTER_CONFIG_DIR": self.jup,
            "JUPYTER_CONFIG_PATH": self.jup,
            "JUPYTER_PATH": self.jup,
            "JUPYTER_DATA_DIR": self.jup,
            "JUPYTER_NO_CONFIG": "",
            "PYTHONHASHSEED": os.environ.get("PYTHONHASHSEED", "0"),
            "PYTHONDONTWRITEBYTECODE": "1",
            "PYTHONPATH": os.environ.get("PYTHONPATH", ""),
        }
        self.env.pop("JUPYTER_NO_CONFIG")
        self._stamp()

    def _stamp(self):
        d = "%d +0000" % self.clock
        self.env["GIT_AUTHOR_DATE"] = d
        self.env["GIT_COMMITTER_DATE"] = d

    def tick(self, n=60):
        self.clock += n
        self._stamp()
        if os.environ.get("GIT_AUTHOR_DATE"):
            os.environ["GIT_AUTHOR_DATE"] = self.env["GIT_AUTHOR_DATE"]
            os.environ["GIT_COMMITTER_DATE"] = self.env["GIT_COMMITTER_DATE"]

    def activate(self):
        """Make this process live in the world (we are in a forked run child)."""
        for k in list(os.environ):
            if k.startswith(("GIT_", "JUPYTER_", "XDG_", "NBDIME")) or k in ("EDITOR", "VISUAL", "PAGER"):
                del os.environ[k]
        os.environ.update(self.env)
        os.chdir(self.work)
        import tempfile
        tempfile.tempdir = None
        tempfile.gettempdir()   # probe the default directory now, outside any simulated seam

    def git(self, *argv, cwd=None, check=True, input=None, env_extra=None):
        """Harness-side git (never through the simulated seams)."""
        env = dict(self.env)
        if env_extra:
            env.update(env_extra)
        p = real_run([REAL["git"]] + list(argv), cwd=cwd or self.work, env=env, input=input)
        if check and p.returncode != 0:
            raise RuntimeError("git %s failed (%d): %s" % (" ".join(argv), p.returncode, p.stderr.decode("utf8", "replace")))
        return p

    def rel(self, path):
        return os.path.relpath(path, self.root)
