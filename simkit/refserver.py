"""Fresh-process oracle.

A *separate interpreter* (other PYTHONHASHSEED than the system under test) imports nbdime and
then does nothing but accept connections on a Unix socket; each request is served by a fork
of that pristine template: the child applies the environment the request names, performs the
one call and returns canonical JSON.  A forked pristine template is observationally a freshly
started interpreter that has imported nbdime: import-time state is what a fresh process has,
and nothing has been called.

server:  python -m simkit.refserver <socket> <module> (run with PYTHONPATH set by the caller)
"""
import importlib
import json
import os
import signal
import socket
import struct
import subprocess
import sys
import time
import traceback


def _recv_exact(conn, n):
    buf = bytearray()
    while len(buf) < n:
        chunk = conn.recv(n - len(buf))
        if not chunk:
            raise EOFError("peer closed")
        buf += chunk
    return bytes(buf)


def send_msg(conn, obj):
    data = json.dumps(obj).encode()
    conn.sendall(struct.pack(">Q", len(data)) + data)


def recv_msg(conn):
    (n,) = struct.unpack(">Q", _recv_exact(conn, 8))
    return json.loads(_recv_exact(conn, n))


def serve(sock_path, module_name):
    mod = importlib.import_module(module_name)
    if hasattr(mod, "ref_prepare"):
        mod.ref_prepare()
    signal.signal(signal.SIGCHLD, signal.SIG_IGN)   # auto-reap
    srv = socket.socket(socket.AF_UNIX, socket.SOCK_STREAM)
    if os.path.exists(sock_path):
        os.remove(sock_path)
    srv.bind(sock_path)
    srv.listen(256)
    ppid = os.getppid()
    srv.settimeout(2.0)
    while True:
        try:
            conn, _ = srv.accept()
        except socket.timeout:
            if os.getppid() != ppid:   # the check that started us is gone
                os._exit(0)
            continue
        pid = os.fork()
        if pid == 0:
            srv.close()
            try:
                signal.signal(signal.SIGCHLD, signal.SIG_DFL)
                req = recv_msg(conn)
                for k, v in (req.get("env") or {}).items():
                    os.environ[k] = v
                if req.get("cwd"):
                    os.chdir(req["cwd"])
                try:
                    resp = {"ok": mod.ref_call(req["call"])}
                except BaseException:
                    resp = {"harness_error": traceback.format_exc()}
                send_msg(conn, resp)
            finally:
                try:
                    conn.close()
                finally:
                    os._exit(0)
        conn.close()


class RefServer:
    """Client-side handle; started by the check's main process before any run is forked."""

    def __init__(self, module_name, hashseed, root, tag=""):
        self.sock_path = os.path.join(root, "ref-%s%s.sock" % (hashseed, tag))
        env = dict(os.environ)
        env["PYTHONHASHSEED"] = str(hashseed)
        self.hashseed = hashseed
        self.proc = subprocess.Popen([sys.executable, "-c",
                                      "import sys; from simkit import refserver; refserver.serve(sys.argv[1], sys.argv[2])",
                                      self.sock_path, module_name], env=env, cwd=root,
                                     stdout=subprocess.DEVNULL, stderr=subprocess.PIPE if os.environ.get("VERIF_DEBUG") else subprocess.DEVNULL)
        t0 = time.time()
        while not os.path.exists(self.sock_path):
            if self.proc.poll() is not None:
                raise RuntimeError("reference server died at start-up (rc %s)" % self.proc.returncode)
            if time.time() - t0 > 60:
                raise RuntimeError("reference server did not come up")
            time.sleep(0.02)

    def stop(self):
        try:
            self.proc.kill()
            self.proc.wait()
        except Exception:
            pass


def call(sock_path, call, env=None, cwd=None, timeout=120):
    s = socket.socket(socket.AF_UNIX, socket.SOCK_STREAM)
    s.settimeout(timeout)
    for attempt in range(50):
        try:
            s.connect(sock_path)
            break
        except (ConnectionRefusedError, BlockingIOError):
            time.sleep(0.05)
    else:
        raise RuntimeError("cannot reach the reference server")
    try:
        send_msg(s, {"call": call, "env": env or {}, "cwd": cwd})
        resp = recv_msg(s)
    finally:
        s.close()
    if "harness_error" in resp:
        raise RuntimeError("reference server: " + resp["harness_error"])
    return resp["ok"]
