"""Seeded generator of schema-valid v4 notebooks, edit scripts and (base, local, remote)
triples.  Payload only: no claimed check judges the payload itself."""
import base64
import copy
import random

VOCAB = [
    "import numpy as np\n", "import pandas as pd\n", "x = 1\n", "y = x + 1\n", "print(x)\n",
    "def f(a, b):\n", "    return a + b\n", "for i in range(10):\n", "    print(i)\n", "\n",
    "# a comment\n", "z = f(x, y)\n", "plt.plot(x, y)\n", "data = load('file.csv')\n",
    "## Heading\n", "Some *markdown* text.\n", "- item one\n", "- item two\n", "r\u00e9sum\u00e9 = '\u00e5\u00e4\u00f6'\n",
    "assert z == 3\n", "x = 2\r\n", "del y\n", "class A:\n", "    pass\n", "%matplotlib inline\n",
    "nul = '\x00'\n",      # U+0000 is valid in JSON and in a notebook; text-merge helpers refuse it
]
KEYS = ["alpha", "beta", "gamma", "delta", "eps", "zeta"]
MIMES = ["text/plain", "text/html", "image/png", "application/json", "image/svg+xml", "text/latex"]
ID_ALPHABET = "abcdefghijklmnopqrstuvwxyzABCDEFGHIJKLMNOPQRSTUVWXYZ0123456789-_"


NUL_P = [0.0]      # knob: probability that a generated text gets the U+0000 line (set by the engine for some runs)


def _lines(rng, lo=0, hi=5):
    n = rng.randint(lo, hi)
    ls = [rng.choice(VOCAB) for _ in range(n)]
    if ls and NUL_P[0] and rng.random() < NUL_P[0]:
        ls.insert(rng.randrange(len(ls) + 1), VOCAB_NUL)
    if ls and rng.random() < 0.3:
        ls[-1] = ls[-1].rstrip("\r\n")  # no final newline
    return "".join(ls)


def _scalar(rng):
    return rng.choice([0, 1, 2, 3.5, True, False, None, "s", "t", "a longer string value", ""])


def json_value(rng, depth=2, shape=None):
    """shape: None (any homogeneous), or one of scalar/list/lol/loo/obj"""
    shape = shape or rng.choice(["scalar", "list", "lol", "loo", "obj"])
    if shape == "scalar" or depth <= 0:
        return _scalar(rng)
    if shape == "list":
        return [_scalar(rng) for _ in range(rng.randint(0, 4))]
    if shape == "lol":
        return [[_scalar(rng) for _ in range(rng.randint(0, 3))] for _ in range(rng.randint(1, 3))]
    if shape == "loo":
        return [{rng.choice(KEYS): _scalar(rng) for _ in range(rng.randint(1, 2))} for _ in range(rng.randint(1, 3))]
    # obj
    return {rng.choice(KEYS): json_value(rng, depth - 1, rng.choice(["scalar", "scalar", "list", "obj"]))
            for _ in range(rng.randint(0, 3))}


LONG_PREFIX = "".join(VOCAB) * 36          # > 10000 characters, shared by every long text
LONG_STREAM_PREFIX = "".join(VOCAB[:12]) * 9  # > 1000 characters
LONG_P = [0.0]                                # knob: probability that a text payload is long (set by the engine)


def _long_text(rng, stream=False):
    if stream and rng.random() < 0.4:
        # a log: many numbered lines (more than any sampling window a comparator might use), over the stream length
        # limit (only for streams: nbdime compares texts character-wise, which is quadratic in 10k-character bundles)
        n = rng.randint(33, 48)
        return "".join("%-24s log #%d\n" % (rng.choice(VOCAB).strip("\r\n\0")[:24], i) for i in range(n))
    pre = LONG_STREAM_PREFIX if stream else LONG_PREFIX
    return pre + "".join(rng.choice(VOCAB) for _ in range(rng.randint(0, 3)))


def _png(rng):
    raw = bytes(rng.getrandbits(8) for _ in range(rng.choice([48, 60, 96])))
    return base64.b64encode(raw).decode() + "\n"


def mime_bundle(rng, shapes=None):
    data = {}
    for m in rng.sample(MIMES, rng.randint(1, 3)):
        if m == "image/png":
            data[m] = _png(rng)
        elif m == "application/json":
            data[m] = json_value(rng, 2, rng.choice(shapes) if shapes else None)
            if not isinstance(data[m], (dict, list)):
                data[m] = {"v": data[m]}
        elif m.startswith("text/") and rng.random() < LONG_P[0]:
            data[m] = _long_text(rng)
        else:
            data[m] = _lines(rng, 1, 3) or "t"
    return data


def metadata(rng, shapes=None, p=0.5):
    md = {}
    if rng.random() < p:
        for _ in range(rng.randint(1, 3)):
            md[rng.choice(KEYS)] = json_value(rng, 2, rng.choice(shapes) if shapes else None)
    return md


def output(rng, shapes=None):
    t = rng.choice(["stream", "stream", "error", "display_data", "execute_result"])
    if t == "stream":
        if rng.random() < LONG_P[0]:
            return {"output_type": "stream", "name": "stdout", "text": _long_text(rng, stream=True)}
        return {"output_type": "stream", "name": rng.choice(["stdout", "stderr"]), "text": _lines(rng, 1, 3) or "o\n"}
    if t == "error":
        return {"output_type": "error", "ename": rng.choice(["ValueError", "KeyError"]),
                "evalue": rng.choice(["bad", "worse", "1"]),
                "traceback": [rng.choice(VOCAB).rstrip("\r\n") for _ in range(rng.randint(0, 3))]}
    o = {"output_type": t, "data": mime_bundle(rng, shapes), "metadata": metadata(rng, shapes, 0.3)}
    if t == "execute_result":
        o["execution_count"] = rng.choice([None, 1, 2, 3])
    return o


def new_id(rng):
    return "".join(rng.choice(ID_ALPHABET) for _ in range(rng.choice([8, 8, 8, 1, 12])))


def cell(rng, minor, shapes=None, used_ids=None):
    t = rng.choice(["code", "code", "markdown", "raw"])
    c = {"cell_type": t, "metadata": metadata(rng, shapes, 0.35), "source": _lines(rng, 0, 5)}
    if rng.random() < 0.15:
        c["metadata"]["collapsed"] = rng.choice([True, False])
    if rng.random() < 0.1:
        c["metadata"]["tags"] = rng.sample(["a", "b", "hide"], rng.randint(0, 2))
    if t == "code":
        c["execution_count"] = rng.choice([None, 1, 2, 3, 7])
        c["outputs"] = [output(rng, shapes) for _ in range(rng.choice([0, 0, 1, 1, 2, 3]))]
    elif rng.random() < 0.2:
        c["attachments"] = {rng.choice(["a.png", "b.png"]): {"image/png": _png(rng)}}
    if minor >= 5:
        i = new_id(rng)
        while used_ids is not None and i in used_ids:
            i = new_id(rng)
        if used_ids is not None:
            used_ids.add(i)
        c["id"] = i
    return c


def notebook(rng, max_cells=6, minor=None, shapes=None):
    minor = rng.choice([0, 1, 2, 4, 4, 5, 5, 5]) if minor is None else minor
    used = set()
    nb = {
        "nbformat": 4, "nbformat_minor": minor,
        "metadata": metadata(rng, shapes, 0.6),
        "cells": [cell(rng, minor, shapes, used) for _ in range(rng.randint(0, max_cells))],
    }
    if rng.random() < 0.4:
        nb["metadata"]["kernelspec"] = {"display_name": "Python 3", "language": "python", "name": "python3"}
    if rng.random() < 0.3:
        nb["metadata"]["language_info"] = {"name": "python", "version": rng.choice(["3.8", "3.12"])}
    return nb


# ---------------------------------------------------------------- edit scripts

VOCAB_NUL = "nul = '\x00'\n"


def _edit_lines(rng, text):
    ls = text.splitlines(True)
    k = rng.choice(["ins", "del", "chg", "app"])
    if not ls or k == "app":
        ls.append(rng.choice(VOCAB))
    elif k == "ins":
        ls.insert(rng.randrange(len(ls) + 1), rng.choice(VOCAB))
    elif k == "del":
        del ls[rng.randrange(len(ls))]
    else:
        ls[rng.randrange(len(ls))] = rng.choice(VOCAB)
    return "".join(ls)


EDIT_KINDS = ["src", "src", "src", "ins", "del", "move", "dup", "out", "ec", "md", "nbmd", "att"]


def edit(rng, nb, n_edits=None, shapes=None, focus=None, kinds=None):
    """Return an edited deep copy.  focus: optional cell index both sides should touch."""
    nb = copy.deepcopy(nb)
    minor = nb.get("nbformat_minor", 4)
    used = {c.get("id") for c in nb["cells"] if "id" in c}
    for _ in range(rng.randint(1, 3) if n_edits is None else n_edits):
        cells = nb["cells"]
        k = rng.choice(kinds or EDIT_KINDS)
        if not cells and k not in ("ins", "nbmd"):
            k = "ins"
        i = rng.randrange(len(cells)) if cells else 0
        if focus is not None and cells and rng.random() < 0.7:
            i = min(focus, len(cells) - 1)
        if k == "src":
            cells[i]["source"] = _edit_lines(rng, cells[i]["source"])
        elif k == "ins":
            cells.insert(rng.randrange(len(cells) + 1), cell(rng, minor, shapes, used))
        elif k == "del":
            del cells[i]
        elif k == "move":
            c = cells.pop(i)
            cells.insert(rng.randrange(len(cells) + 1), c)
        elif k == "dup":
            c = copy.deepcopy(cells[i])
            if "id" in c:
                c["id"] = new_id(rng)
                while c["id"] in used:
                    c["id"] = new_id(rng)
                used.add(c["id"])
            cells.insert(i + 1, c)
        elif k == "dupedit":
            # an edited copy next to the original: similar source, different outputs (competing alignment candidates)
            c = copy.deepcopy(cells[i])
            if c["cell_type"] != "code":
                c = {"cell_type": "code", "metadata": {}, "source": c["source"], "execution_count": None, "outputs": []}
                if minor >= 5:
                    c["id"] = cells[i].get("id", "x")
            ls = c["source"].splitlines(True)
            while len(ls) < 4:
                ls.append(rng.choice(VOCAB))
            cells[i]["source"] = "".join(ls)
            if cells[i]["cell_type"] == "code" and not cells[i]["outputs"]:
                cells[i]["outputs"] = [output(rng, shapes)]
            ls2 = list(ls)
            ls2[rng.randrange(len(ls2))] = rng.choice(VOCAB)
            c["source"] = "".join(ls2)
            if rng.random() < 0.7:      # the original is edited a little too, so that neither copy matches strictly
                ls[rng.randrange(len(ls))] = rng.choice(VOCAB)
                cells[i]["source"] = "".join(ls)
            c["outputs"] = [output(rng, shapes) for _ in range(rng.randint(1, 2))]
            if "id" in c:
                c["id"] = new_id(rng)
                while c["id"] in used:
                    c["id"] = new_id(rng)
                used.add(c["id"])
            cells.insert(i + rng.choice([0, 1]), c)
        elif k == "out":
            c = cells[i]
            if c["cell_type"] == "code":
                r = rng.random()
                if c["outputs"] and r < 0.35:
                    del c["outputs"][rng.randrange(len(c["outputs"]))]
                elif c["outputs"] and r < 0.7:
                    c["outputs"][rng.randrange(len(c["outputs"]))] = output(rng, shapes)
                else:
                    c["outputs"].append(output(rng, shapes))
            else:
                c["source"] = _edit_lines(rng, c["source"])
        elif k in ("outmeta", "outtail"):
            # keep an output's payload but change its execution count / metadata, or only the tail of its text
            cands = [c for c in cells if c["cell_type"] == "code" and c.get("outputs")]
            if not cands:
                cells[i]["source"] = _edit_lines(rng, cells[i]["source"])
                continue
            c = rng.choice(cands)
            o = rng.choice(c["outputs"])
            if k == "outmeta":
                if o["output_type"] == "execute_result":
                    o["execution_count"] = rng.choice([None, 1, 2, 3, 5, 8])
                if "metadata" in o:
                    o["metadata"] = dict(o["metadata"], **{rng.choice(KEYS): _scalar(rng)})
                c["execution_count"] = rng.choice([None, 1, 2, 3, 7, 11])
            else:
                if o["output_type"] == "stream":
                    o["text"] = o["text"] + rng.choice(VOCAB)
                elif "data" in o:
                    for m in sorted(o["data"]):
                        if m.startswith("text/") and isinstance(o["data"][m], str):
                            o["data"][m] = o["data"][m] + rng.choice(VOCAB)
                            break
        elif k == "outlines":
            # rewrite a share of the lines of a long many-line output (borderline similar), sometimes changing the count
            cands = []
            for c in cells:
                for o in (c.get("outputs") or []) if c["cell_type"] == "code" else []:
                    if o["output_type"] == "stream" and o["text"].count("\n") > 32:
                        cands.append((o, "text"))
                    for m in sorted(o.get("data") or {}):
                        if m.startswith("text/") and isinstance(o["data"][m], str) and o["data"][m].count("\n") > 32:
                            cands.append((o["data"], m))
            if not cands:
                cells[i]["source"] = _edit_lines(rng, cells[i]["source"])
                continue
            holder, key = rng.choice(cands)
            ls = holder[key].splitlines(True)
            share = rng.choice([0.1, 0.2, 0.3, 0.4, 0.5])
            for j in rng.sample(range(len(ls)), max(1, int(len(ls) * share))):
                ls[j] = "rewritten %d %s" % (rng.randint(0, 999), ls[j])
            r = rng.random()
            if r < 0.25:
                del ls[rng.randrange(len(ls))]
            elif r < 0.5:
                ls.insert(rng.randrange(len(ls)), "an added line %d\n" % rng.randint(0, 999))
            holder[key] = "".join(ls)
        elif k == "samelen":
            # a length-preserving edit (x = 1 -> x = 2): the file keeps its byte size
            src = cells[i]["source"]
            pos = [j for j, ch in enumerate(src) if ch.isalnum() and ord(ch) < 128]
            if pos:
                j = rng.choice(pos)
                ch = src[j]
                new = rng.choice([c2 for c2 in "abcxyz0123456789" if c2 != ch])
                cells[i]["source"] = src[:j] + new + src[j + 1:]
            else:
                cells[i]["source"] = src + "x"
        elif k == "ec":
            c = cells[i]
            if c["cell_type"] == "code":
                c["execution_count"] = rng.choice([None, 1, 2, 3, 7, 11])
            else:
                c["source"] = _edit_lines(rng, c["source"])
        elif k == "md":
            md = cells[i]["metadata"]
            key = rng.choice(KEYS)
            if key in md and rng.random() < 0.4:
                del md[key]
            else:
                md[key] = json_value(rng, 2, rng.choice(shapes) if shapes else None)
        elif k == "nbmd":
            md = nb["metadata"]
            key = rng.choice(KEYS)
            if key in md and rng.random() < 0.4:
                del md[key]
            else:
                md[key] = json_value(rng, 2, rng.choice(shapes) if shapes else None)
        elif k == "att":
            c = cells[i]
            if c["cell_type"] in ("markdown", "raw"):
                att = c.setdefault("attachments", {})
                name = rng.choice(["a.png", "b.png"])
                if name in att and rng.random() < 0.5:
                    del att[name]
                    if not att:
                        del c["attachments"]
                else:
                    att[name] = {"image/png": _png(rng)}
            else:
                c["source"] = _edit_lines(rng, c["source"])
    return nb


def triple(rng, max_cells=4, shapes=None, overlap=0.5, minor=None, kinds=None):
    base = notebook(rng, max_cells, minor, shapes)
    focus = rng.randrange(max(1, len(base["cells"]))) if rng.random() < overlap else None
    local = edit(rng, base, shapes=shapes, focus=focus, kinds=kinds)
    remote = edit(rng, base, shapes=shapes, focus=focus, kinds=kinds)
    return base, local, remote
