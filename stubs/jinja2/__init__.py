"""Minimal stand-in for jinja2 (not installed here): templates are not rendered; a page
request returns a JSON dump of the template name and context."""
import json


class _Template:
    def __init__(self, name):
        self.name = name

    def render(self, **ns):
        def d(o):
            return repr(o)
        return json.dumps({"template": self.name, "context": ns}, default=d, sort_keys=True)


class BaseLoader:
    def __init__(self, *a, **kw):
        self.args = a


class FileSystemLoader(BaseLoader):
    pass


class ChoiceLoader(BaseLoader):
    pass


class Environment:
    def __init__(self, loader=None, **kw):
        self.loader = loader
        self.options = kw

    def get_template(self, name):
        return _Template(name)
