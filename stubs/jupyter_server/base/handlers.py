import json
import logging
import traceback
from http.client import responses

from tornado import web

_log = logging.getLogger("jupyter_server.stub")


class JupyterHandler(web.RequestHandler):
    @property
    def log(self):
        return _log

    @property
    def base_url(self):
        return self.settings.get("base_url", "/")

    @property
    def jinja_template_vars(self):
        return self.settings.get("jinja_template_vars", {})

    def get_template(self, name):
        return self.settings["jinja2_env"].get_template(name)

    def render_template(self, name, **ns):
        ns.setdefault("base_url", self.base_url)
        return self.get_template(name).render(**ns)

    def get_current_user(self):
        return "anonymous"

    def check_xsrf_cookie(self):
        return None


class APIHandler(JupyterHandler):
    def write_error(self, status_code, **kwargs):
        self.set_header("Content-Type", "application/json")
        message = responses.get(status_code, "Unknown HTTP Error")
        reply = {"message": message}
        exc_info = kwargs.get("exc_info")
        if exc_info:
            e = exc_info[1]
            if isinstance(e, web.HTTPError):
                reply["message"] = e.log_message or message
                reply["reason"] = e.reason
            else:
                reply["message"] = "Unhandled error"
                reply["reason"] = None
                reply["traceback"] = "".join(traceback.format_exception(*exc_info))
        self.finish(json.dumps(reply))

    def finish(self, *args, **kwargs):
        self.set_header("Content-Type", "application/json")
        return super().finish(*args, **kwargs)
