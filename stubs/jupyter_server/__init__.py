"""Minimal stand-in for the jupyter_server package, which is not installed in this sandbox.
Only what nbdime.webapp.nbdimeserver imports.  (C20 prescribes these stubs.)"""
__version__ = "0+verif.stub"
