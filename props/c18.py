"""C18 — git integration setup is idempotent and never touches foreign settings.

World: sandbox HOME (global gitconfig, XDG / custom attributes file) + a repository.  System under
test: the real `nbdime config-git` and `git-nb{diffdriver,mergedriver,difftool,mergetool} config`
mains, run in-process against real git.  Every `git config` spawn is a step boundary (SimProc):
the configuration is observed there, and faults (caller killed, lock present, spawn failure,
unwritable attributes file) are injected there."""
import contextlib
import errno
import io
import os
import stat
import subprocess
import sys

from simkit import core
from simkit.core import EventLog, Violation
from simkit.world import World, REAL

PROP = "C18"
LEVEL = "exploration"
TIERS = {
    "quick": dict(runs=1600, wall_cap=240, timeout=180, max_cmds=6, shrink_seconds=90, shrink_steps=300),
    "thorough": dict(runs=30000, wall_cap=2700, timeout=240, max_cmds=8, shrink_seconds=300, shrink_steps=800),
}

_real_popen = subprocess.Popen
_real_io_open = io.open

COMPONENTS = ["config-git", "diffdriver", "mergedriver", "difftool", "mergetool"]
OWN_KEYS = {"diff.jupyternotebook.command", "merge.jupyternotebook.driver", "merge.jupyternotebook.name",
            "difftool.nbdime.cmd", "mergetool.nbdime.cmd", "difftool.prompt", "mergetool.prompt"}
DEFAULT_KEYS = {"diff.guitool", "merge.tool"}
NB_DIFF_LINE = "*.ipynb\tdiff=jupyternotebook"
NB_MERGE_LINE = "*.ipynb\tmerge=jupyternotebook"
UNRELATED_ATTRS = ["*.txt text\n", "*.png binary\n", "# my rules\n*.csv -diff\n", "docs/* linguist-documentation\n"]
FOREIGN = [("diff.other.command", "other-diff"), ("merge.other.driver", "other-merge %O %A %B"),
           ("merge.other.name", "some other driver"),
           ("difftool.meld.cmd", 'meld "$LOCAL" "$REMOTE"'), ("mergetool.kdiff3.path", "/usr/bin/kdiff3"),
           ("core.editor", "vi"), ("alias.co", "checkout"), ("diff.tool", "vimdiff"), ("merge.conflictstyle", "diff3"),
           ("diff.renames", "true"), ("mergetool.keepbackup", "false"), ("difftool.trustexitcode", "true"),
           ("difftool.meld.prompt", "true"), ("difftool.nbdimex.cmd", "other-tool $LOCAL $REMOTE"), ("mergetool.nbdime-old.cmd", "legacy"),
           ("diff.jupyternotebookx.command", "someone-elses-driver"), ("merge.jupyternotebook-custom.driver", "custom %O %A %B")]


class SimKill(BaseException):
    """The simulated process dies here (SIGKILL / power loss)."""


def prepare():
    import nbdime.__main__  # noqa
    import nbdime.vcs.git.diffdriver, nbdime.vcs.git.mergedriver, nbdime.vcs.git.difftool, nbdime.vcs.git.mergetool  # noqa


def size(trace):
    return len(trace.get("ops", []))


# ------------------------------------------------------------------ generation

def _gen_scope_init(rng):
    init = {"config": [], "attrs": None}
    mt = rng.choice([None, None, "nbdime", "meld", "kdiff3", "nbdime-web", "my-nbdime"])
    gt = rng.choice([None, None, "nbdime", "meld", "kdiff3", "nbdime-web", "my-nbdime"])
    if mt:
        init["config"].append(["merge.tool", mt])
    if gt:
        init["config"].append(["diff.guitool", gt])
    for key in ("difftool.prompt", "mergetool.prompt"):
        v = rng.choice([None, None, "true", "false"])
        if v:
            init["config"].append([key, v])
    for k, v in rng.sample(FOREIGN, rng.randint(0, 5)):
        init["config"].append([k, v])
    # left over from an earlier enable - possibly edited since (full path, for IDEs / cron jobs whose PATH lacks the
    # Python environment); @BIN is the directory of the entry points at execution time.  (Spellings the sandbox cannot
    # execute - python -m, an env prefix - are left out: the routing probe could not see through them.)
    if rng.random() < 0.2:
        init["config"].append(["diff.jupyternotebook.command", rng.choice(
            ["git-nbdiffdriver diff", "git-nbdiffdriver diff", "@BIN/git-nbdiffdriver diff", "@BIN/git-nbdiffdriver diff"])])
    if rng.random() < 0.2:
        init["config"].append(["merge.jupyternotebook.driver", rng.choice(
            ["git-nbmergedriver merge %O %A %B %L %P", "git-nbmergedriver merge %O %A %B %L %P",
             "@BIN/git-nbmergedriver merge %O %A %B %L %P", "@BIN/git-nbmergedriver merge %O %A %B %L %P"])])
        init["config"].append(["merge.jupyternotebook.name", "jupyter notebook merge driver"])
    if rng.random() < 0.15:
        init["config"].append(["difftool.nbdime.cmd", 'git-nbdifftool diff "$LOCAL" "$REMOTE" "$BASE"'])
    rng.shuffle(init["config"])
    if rng.random() < 0.15:
        # a key that occurs twice in the file (a second [merge] block appended by an installer, `git config --add`):
        # git answers with the last value, the earlier one is someone else's setting all the same
        k = rng.choice(["merge.tool", "diff.guitool"])
        init["config"] = [kv for kv in init["config"] if kv[0] != k] + [[k, rng.choice(["kdiff3", "meld"])], [k, rng.choice(["nbdime", "nbdime", "p4merge"])]]
        init["multi"] = True
    r = rng.random()
    if r < 0.3:
        init["attrs"] = None
    else:
        text = "".join(rng.sample(UNRELATED_ATTRS, rng.randint(0, 3)))
        if rng.random() < 0.35:
            text += rng.choice([NB_DIFF_LINE + "\n", "\n" + NB_DIFF_LINE + "\n\n" + NB_MERGE_LINE + "\n",
                                NB_MERGE_LINE + "\n", "*.ipynb diff=jupyternotebook merge=jupyternotebook\n"])
        if rng.random() < 0.12:
            # a commented-out nbdime rule is not a rule
            text += rng.choice(["# *.ipynb\tdiff=jupyternotebook\n", "#*.ipynb merge=jupyternotebook\n",
                                "# *.ipynb diff=jupyternotebook merge=jupyternotebook\n"])
        if rng.random() < 0.12:
            text = text.replace("\n", "\r\n")   # a file last saved on Windows
        if rng.random() < 0.3:
            text = text.rstrip("\r\n")  # no trailing newline
        init["attrs"] = text
        if rng.random() < 0.1:
            init["attrs_latin1"] = True    # a comment in another encoding (git does not care what bytes a comment holds)
    return init


def generate(rng, index, cfg):
    swarm = {
        "faults": rng.random() < 0.35,
        "xdg": rng.choice(["default", "unset", "alt", "empty"]),
        "custom_attributesfile": rng.random() < 0.25,
        "p_global": rng.choice([0.2, 0.5, 0.8]),
        "p_outside": rng.choice([0.0, 0.1, 0.3]),
    }
    world = {"local": _gen_scope_init(rng), "global": _gen_scope_init(rng),
             # the home directory is itself under version control (dotfiles): ~/.gitattributes exists, and is *not* a
             # file git reads for other repositories
             "home_gitattributes": rng.random() < 0.15,
             "xdg": swarm["xdg"], "custom_attributesfile": swarm["custom_attributesfile"],
             # how the work tree is attached to its repository: an ordinary .git directory, or a .git *file* (a linked
             # work tree beside or inside the main one, a repository created with --separate-git-dir)
             "layout": rng.choice(["plain", "plain", "plain", "linked_sibling", "linked_nested", "separate_git_dir"])}
    ops = []
    for _ in range(rng.randint(1, cfg["max_cmds"])):
        if swarm["faults"] and rng.random() < 0.08:
            # the attributes file becomes read-only (or writable again) and stays so over the following commands
            ops.append({"op": "attrs_ro", "scope": rng.choice(["local", "local", "global"]), "on": rng.random() < 0.7})
            continue
        if ops and rng.random() < 0.25:
            # the user changes a setting between two nbdime commands (switches default tool, flips a prompt, ...)
            key = rng.choice(["merge.tool", "diff.guitool", "difftool.prompt", "mergetool.prompt"] + [k for k, _ in FOREIGN])
            if key in ("merge.tool", "diff.guitool"):
                val = rng.choice(["meld", "kdiff3", "nbdime", "nbdime-web", "my-nbdime", None])
            elif key.endswith(".prompt"):
                val = rng.choice(["true", "false", None])
            elif key.endswith((".cmd", ".command", ".driver", ".path", ".name", ".editor", ".co")):
                val = rng.choice([dict(FOREIGN)[key], "changed-by-user", None])
            else:
                val = rng.choice([dict(FOREIGN)[key], None])      # (only values git accepts for keys it interprets)
            uop = {"op": "user", "scope": rng.choice(["local", "global"]), "key": key, "value": val}
            if val is not None and rng.random() < 0.3:
                uop["add"] = True        # `git config --add`: the key becomes multi-valued (a second [merge] block)
            ops.append(uop)
            continue
        comp = rng.choice(COMPONENTS)
        op = {"op": "cmd", "component": comp, "enable": rng.random() < 0.6,
              "global": rng.random() < swarm["p_global"],
              "set_default": comp in ("difftool", "mergetool") and rng.random() < 0.4,
              "outside_repo": rng.random() < swarm["p_outside"], "fault": None}
        if swarm["faults"] and rng.random() < 0.4:
            k = rng.choice(["kill_before", "kill_after", "lock", "spawn_fail", "attrs_eacces", "concurrent_write", "concurrent_write"])
            op["fault"] = {"kind": k, "at_step": rng.randint(0, 7)}
        ops.append(op)
    return {"swarm": swarm, "world": world, "ops": ops}


# ------------------------------------------------------------------ execution

def _parse_list(b):
    out = []
    for ent in b.decode("utf8", "replace").split("\0"):
        if not ent:
            continue
        k, _, v = ent.partition("\n")
        out.append((k, v))
    return out


def _nonnb_lines(text):
    return [l for l in (text or "").splitlines() if l.strip() and "jupyternotebook" not in l]


class Runner:
    def __init__(self, trace, scratch):
        self.trace = trace
        self.w = World(scratch, helpers=("git",))
        self.log = EventLog(keep=False)
        self.log.add_subst(self.w.root, "$S")
        self.violations = []
        self.stats = {}
        self.distinct = {"cmd_state": set(), "step_state": set()}
        self._cfg_cache = {}
        self.readonly = set()       # scopes whose attributes file is currently read-only
        self.sentinel_log = os.path.join(self.w.root, "sentinel.log")

    def stat(self, k, n=1):
        self.stats[k] = self.stats.get(k, 0) + n

    def violate(self, oracle, sig, detail):
        self.log.ev("violation", oracle=oracle, sig=sig)
        self.violations.append(Violation(oracle, sig, detail))

    # ---------------- world
    def setup(self):
        w = self.w
        tw = self.trace["world"]
        layout = tw.get("layout", "plain")
        self.main_repo = None
        if layout == "linked_nested":
            # the main work tree is <root>/work; the work tree the commands run in is kept inside it
            self.main_repo = w.work
            w.work = os.path.join(self.main_repo, "trees", "feature")
            os.makedirs(w.work)
        elif layout == "linked_sibling":
            self.main_repo = os.path.join(w.root, "mainrepo")
        if tw["xdg"] == "unset":
            w.env.pop("XDG_CONFIG_HOME", None)
            self.xdg_dir = os.path.join(w.home, ".config")
        elif tw["xdg"] == "empty":
            w.env["XDG_CONFIG_HOME"] = ""          # exported but empty: git treats it as unset
            self.xdg_dir = os.path.join(w.home, ".config")
        elif tw["xdg"] == "alt":
            w.env["XDG_CONFIG_HOME"] = os.path.join(w.home, "xdgalt")
            self.xdg_dir = w.env["XDG_CONFIG_HOME"]
        else:
            self.xdg_dir = w.xdg
        w.activate()
        if tw["xdg"] == "unset":
            os.environ.pop("XDG_CONFIG_HOME", None)
        for name, rc in (("git-nbdiffdriver", 0), ("git-nbmergedriver", 0)):
            p = os.path.join(w.bin, name)
            with open(p, "w") as f:
                f.write("#!/bin/sh\necho \"%s $1\" >> '%s'\nexit %d\n" % (name, self.sentinel_log, rc))
            os.chmod(p, 0o755)
        # stand-ins for the web tools: record how git invokes them (arguments and the first line of each file argument)
        self.tool_log = os.path.join(w.root, "tool.log")
        for name in ("git-nbdifftool", "git-nbmergetool"):
            p = os.path.join(w.bin, name)
            script = "\n".join([
                "#!/bin/sh",
                "printf 'TOOL NAME\\n' >> 'LOG'",
                'for a in "$@"; do',
                "  l=-",
                '  if [ -f "$a" ]; then IFS= read -r l < "$a"; fi',
                "  printf 'ARG %s\\t%s\\n' \"$a\" \"$l\" >> 'LOG'",
                "done",
                "exit 0", ""]).replace("NAME", name).replace("LOG", self.tool_log)
            with open(p, "w") as f:
                f.write(script)
            os.chmod(p, 0o755)
        self.outside = os.path.join(w.root, "elsewhere")
        os.makedirs(self.outside)
        nb = '{"cells": [], "metadata": {}, "nbformat": 4, "nbformat_minor": 4}\n'
        self.enclosing_attrs = None
        if self.main_repo:
            os.makedirs(self.main_repo, exist_ok=True)
            w.git("init", "-q", "-b", "trunk", ".", cwd=self.main_repo)
            self.enclosing_attrs = os.path.join(self.main_repo, ".gitattributes")
            with open(self.enclosing_attrs, "w") as f:
                f.write("*.png binary\n*.txt text\n")
            w.git("add", ".gitattributes", cwd=self.main_repo)
            w.git("commit", "-q", "-m", "trunk", cwd=self.main_repo)
            # (the branch starts from trunk; its files are dropped from the index and the tree)
            w.git("worktree", "add", "-q", "-b", "main", w.work, cwd=self.main_repo)
            w.git("rm", "-q", "-r", "--", ".", cwd=w.work)
            os.chdir(w.work)
        elif layout == "separate_git_dir":
            w.git("init", "-q", "-b", "main", "--separate-git-dir", os.path.join(w.root, "gitstore"), ".")
        else:
            w.git("init", "-q", "-b", "main", ".")
        self.local_config = os.path.realpath(os.path.join(
            w.work, w.git("rev-parse", "--git-path", "config").stdout.decode().strip()))
        self.info_attrs = os.path.realpath(os.path.join(
            w.work, w.git("rev-parse", "--git-path", "info/attributes").stdout.decode().strip()))
        for n in ("x.ipynb", "y.ipynb", "sp ace.ipynb"):
            with open(os.path.join(w.work, n), "w") as f:
                f.write(nb)
        w.git("add", "x.ipynb", "y.ipynb", "sp ace.ipynb")
        w.git("commit", "-q", "-m", "base")
        w.git("checkout", "-q", "-b", "other")
        with open(os.path.join(w.work, "x.ipynb"), "w") as f:
            f.write(nb.replace('"metadata": {}', '"metadata": {"side": "other"}'))
        w.git("commit", "-q", "-am", "other")
        w.git("checkout", "-q", "main")
        with open(os.path.join(w.work, "x.ipynb"), "w") as f:
            f.write(nb.replace('"metadata": {}', '"metadata": {"side": "main"}'))
        w.git("commit", "-q", "-am", "main")
        for n in ("y.ipynb", "sp ace.ipynb"):
            with open(os.path.join(w.work, n), "w") as f:
                f.write(nb.replace('"metadata": {}', '"metadata": {"dirty": true}'))
        self.nb_clean, self.nb_dirty = nb.strip(), nb.replace('"metadata": {}', '"metadata": {"dirty": true}').strip()
        # a second repository of the same user, with no configuration or attributes of its own: what --global commands
        # achieve is judged there (the repository the command is run in may already route notebooks by itself)
        self.other_repo = os.path.join(w.root, "other-repo")
        os.makedirs(self.other_repo)
        w.git("init", "-q", "-b", "main", ".", cwd=self.other_repo)
        for n in ("x.ipynb", "sp ace.ipynb"):
            with open(os.path.join(self.other_repo, n), "w") as f:
                f.write(nb)
        w.git("add", "x.ipynb", "sp ace.ipynb", cwd=self.other_repo)
        w.git("commit", "-q", "-m", "base", cwd=self.other_repo)
        for n in ("x.ipynb", "sp ace.ipynb"):
            with open(os.path.join(self.other_repo, n), "w") as f:
                f.write(nb.replace('"metadata": {}', '"metadata": {"dirty": true}'))
        # attributes locations
        self.local_attrs = os.path.join(w.work, ".gitattributes")
        if tw["custom_attributesfile"]:
            self.global_attrs = os.path.join(w.home, "my-attrs")
            w.git("config", "--global", "core.attributesfile", "~/my-attrs")
        else:
            self.global_attrs = os.path.join(self.xdg_dir, "git", "attributes")
        for scope, path in (("local", self.local_attrs), ("global", self.global_attrs)):
            init = tw[scope]
            for k, v in init["config"]:
                w.git("config", "--" + scope, "--add", k, v.replace("@BIN", w.bin))
            if init["attrs"] is not None:
                os.makedirs(os.path.dirname(path), exist_ok=True)
                with open(path, "wb") as f:
                    if init.get("attrs_latin1"):
                        f.write(b"# r\xe8gles du d\xe9p\xf4t\n")
                    f.write(init["attrs"].encode("utf8"))
        self.home_attrs = os.path.join(w.home, ".gitattributes")
        if tw.get("home_gitattributes"):
            with open(self.home_attrs, "w") as f:
                f.write("*.sh text eol=lf\n")
        # make sure ~/.gitconfig exists so its lock path is well defined
        gc = os.path.join(w.home, ".gitconfig")
        if not os.path.exists(gc):
            open(gc, "w").close()

    # ---------------- observation
    def _cfg(self, scope):
        path = self.local_config if scope == "local" else os.path.join(self.w.home, ".gitconfig")
        try:
            with open(path, "rb") as f:
                raw = f.read()
        except OSError:
            raw = None
        key = (scope, raw)
        if key not in self._cfg_cache:
            p = self.w.git("config", "--" + scope, "--list", "-z", check=False)
            # (values naming the sandbox - core.worktree of a separate git dir - are spelled independently of its location)
            self._cfg_cache[key] = [(k, v.replace(self.w.root, "$S")) for k, v in _parse_list(p.stdout)] if p.returncode == 0 else []
        return list(self._cfg_cache[key])      # a copy: callers fold concurrent writes into their baseline in place

    def _read(self, path):
        try:
            with open(path, "rb") as f:
                return f.read().decode("utf8", "replace")
        except OSError:
            return None

    def observe(self, probes=False):
        o = {"local": self._cfg("local"), "global": self._cfg("global"),
             "local_attrs": self._read(self.local_attrs), "global_attrs": self._read(self.global_attrs)}
        if self.enclosing_attrs:
            o["enclosing_attrs"] = self._read(self.enclosing_attrs)
        o["info_attrs"] = self._read(self.info_attrs)
        o["home_attrs"] = self._read(self.home_attrs)
        if probes:
            p = self.w.git("check-attr", "diff", "merge", "--", "x.ipynb", check=False)
            o["check_attr"] = p.stdout.decode()
            o["routed_diff"], o["routed_merge"] = self.probe()
        return o

    def probe(self):
        w = self.w
        if os.path.exists(self.sentinel_log):
            os.remove(self.sentinel_log)
        w.git("diff", "--", "y.ipynb", check=False)
        p = w.git("merge", "--no-commit", "--no-ff", "other", check=False)
        w.git("merge", "--abort", check=False)
        w.git("checkout", "-q", "--", "x.ipynb", check=False)
        text = self._read(self.sentinel_log) or ""
        return ("git-nbdiffdriver diff" in text, "git-nbmergedriver merge" in text)

    def probe_difftool(self, repo_dir):
        """`git difftool --tool=nbdime` on a modified notebook whose name contains a space: how is nbdime's tool invoked?
        Returns None if the tool was not run, else [(argument, first line of that file or '-')]."""
        w = self.w
        if os.path.exists(self.tool_log):
            os.remove(self.tool_log)
        w.git("difftool", "-y", "--tool=nbdime", "--", "sp ace.ipynb", check=False, cwd=repo_dir)
        text = self._read(self.tool_log)
        if not text or "TOOL git-nbdifftool" not in text:
            return None
        return [tuple(l[4:].split("\t", 1)) for l in text.splitlines() if l.startswith("ARG ")]

    def probe_mergetool(self):
        """A conflicted merge in the work repository, then `git mergetool --tool=nbdime`: how is nbdime's tool invoked?
        Returns 'skipped' (a merge driver handles notebooks / no conflict), None (tool not run) or the argument list."""
        w = self.w
        ca = w.git("check-attr", "merge", "--", "x.ipynb", check=False).stdout.decode()
        if "merge: jupyternotebook" in ca:
            return "skipped"
        if os.path.exists(self.tool_log):
            os.remove(self.tool_log)
        m = w.git("merge", "--no-commit", "--no-ff", "other", check=False)
        try:
            if m.returncode == 0:
                return "skipped"
            # (git-mergetool is a shell script that needs mv, cat, basename ...: the sandbox's own bin/ comes first)
            w.git("mergetool", "-y", "--tool=nbdime", "--", "x.ipynb", check=False,
                  env_extra={"PATH": w.bin + os.pathsep + "/usr/bin" + os.pathsep + "/bin"})
        finally:
            w.git("merge", "--abort", check=False)
            w.git("checkout", "-q", "--", "x.ipynb", check=False)
            for fn in os.listdir(w.work):
                if fn.endswith(".orig") or (fn.startswith("x_") and fn.endswith(".ipynb")):
                    with contextlib.suppress(OSError):
                        os.remove(os.path.join(w.work, fn))
        text = self._read(self.tool_log)
        if not text or "TOOL git-nbmergetool" not in text:
            return None
        return [tuple(l[4:].split("\t", 1)) for l in text.splitlines() if l.startswith("ARG ")]

    def probe_other(self):
        """Is a notebook diff in the *other* repository routed to nbdime's diff driver?  (check-attr for both drivers.)"""
        w = self.w
        if os.path.exists(self.sentinel_log):
            os.remove(self.sentinel_log)
        w.git("diff", "--", "x.ipynb", check=False, cwd=self.other_repo)
        text = self._read(self.sentinel_log) or ""
        ca = w.git("check-attr", "diff", "merge", "--", "x.ipynb", check=False, cwd=self.other_repo).stdout.decode()
        return ("git-nbdiffdriver diff" in text, ca)

    # ---------------- one command
    def argv_for(self, op):
        flags = ["--enable" if op["enable"] else "--disable"]
        if op["global"]:
            flags.append("--global")
        if op.get("set_default"):
            flags.append("--set-default")
        return flags

    def run_command(self, op, before, on_step):
        import nbdime.__main__ as nbmain
        from nbdime.vcs.git import diffdriver, mergedriver, difftool, mergetool
        mains = {"diffdriver": diffdriver.main, "mergedriver": mergedriver.main,
                 "difftool": difftool.main, "mergetool": mergetool.main}
        fault = op.get("fault")
        runner = self
        state = {"n": 0, "fired": None}
        lock_paths = [self.local_config + ".lock", os.path.join(self.w.home, ".gitconfig.lock")]

        def popen(argv, *a, **kw):
            n = state["n"]
            state["n"] += 1
            on_step(n, argv)
            k = fault["kind"] if (fault and fault["at_step"] == n) else None
            if k == "kill_before":
                state["fired"] = k
                runner.log.ev("fault", kind=k, step=n)
                raise SimKill()
            if k == "spawn_fail":
                state["fired"] = k
                runner.log.ev("fault", kind=k, step=n)
                raise OSError(errno.ENOMEM, "Cannot allocate memory (injected)")
            if k == "concurrent_write":
                # another git process (an IDE, the user in a second terminal) changes the configuration between two of
                # nbdime's steps: nbdime must not write back a stale view of foreign settings
                state["fired"] = k
                runner.log.ev("fault", kind=k, step=n)
                for scope in ("local", "global"):
                    runner.w.git("config", "--" + scope, "concurrent.writer", "step%d" % n, check=False)
                    runner.w.git("config", "--" + scope, "merge.conflictstyle", "zdiff3", check=False)
                # ... and appends a rule of its own to the attributes files (git lfs track, an editor save)
                rule = "*.bin%d filter=lfs diff=lfs merge=lfs -text" % n
                runner.concurrent_rule = rule
                for path in (runner.local_attrs, runner.global_attrs):
                    try:
                        os.makedirs(os.path.dirname(path), exist_ok=True)
                        cur = runner._read(path) or ""
                        with _real_io_open(path, "a", encoding="utf8") as f:
                            f.write(("" if (not cur or cur.endswith("\n")) else "\n") + rule + "\n")
                    except OSError:
                        pass
                before["local_attrs"] = runner._read(runner.local_attrs)
                before["global_attrs"] = runner._read(runner.global_attrs)
                runner.concurrent = {"concurrent.writer": "step%d" % n, "merge.conflictstyle": "zdiff3"}
                # fold the other process' writes into the baseline at once: they are not nbdime's doing
                for scope in ("local", "global"):
                    now = runner._cfg(scope)
                    if any(k == "concurrent.writer" for k, _ in now):
                        before[scope][:] = [(k, v) for k, v in before[scope] if k not in runner.concurrent] + sorted(runner.concurrent.items())
                return _real_popen(argv, *a, **kw)
            if k == "lock":
                state["fired"] = k
                runner.log.ev("fault", kind=k, step=n)
                for lp in lock_paths:
                    open(lp, "w").close()
                try:
                    p = _real_popen(argv, *a, **kw)
                    p.wait()
                finally:
                    for lp in lock_paths:
                        with contextlib.suppress(OSError):
                            os.remove(lp)
                return p
            p = _real_popen(argv, *a, **kw)
            if k == "kill_after":
                p.wait()
                state["fired"] = k
                runner.log.ev("fault", kind=k, step=n)
                raise SimKill()
            return p

        def opener(file, mode="r", *a, **kw):
            if runner.readonly and any(c in mode for c in "aw+x") and isinstance(file, str) and \
                    os.path.realpath(file) in [os.path.realpath(getattr(runner, sc + "_attrs")) for sc in sorted(runner.readonly)]:
                # the attributes file is read-only for as long as the user leaves it so (several commands)
                state["fired"] = "attrs_readonly"
                runner.log.ev("fault", kind="attrs_readonly")
                raise PermissionError(errno.EACCES, "Permission denied (read-only attributes file)", file)
            if fault and fault["kind"] == "attrs_eacces" and "a" in mode and isinstance(file, str) and \
                    os.path.realpath(file) in (os.path.realpath(runner.local_attrs), os.path.realpath(runner.global_attrs)):
                state["fired"] = "attrs_eacces"
                runner.log.ev("fault", kind="attrs_eacces")
                raise PermissionError(errno.EACCES, "Permission denied (injected)", file)
            return _real_io_open(file, mode, *a, **kw)

        cwd = self.outside if op.get("outside_repo") else self.w.work
        os.chdir(cwd)
        flags = self.argv_for(op)
        sink = io.StringIO()
        saved = (subprocess.Popen, io.open)
        subprocess.Popen = popen
        io.open = opener
        outcome = "ok"
        try:
            with contextlib.redirect_stdout(sink), contextlib.redirect_stderr(sink), \
                    core.NamedImports(_real_popen, popen), core.NamedImports(_real_io_open, opener):
                if op["component"] == "config-git":
                    rc = nbmain.main_dispatch(["config-git"] + flags)
                else:
                    rc = mains[op["component"]](["config"] + flags)
            outcome = "rc%s" % (rc or 0)
        except SimKill:
            outcome = "killed"
        except SystemExit as e:
            outcome = "exit%s" % (e.code,)
        except Exception as e:
            outcome = "exc:%s" % type(e).__name__
        finally:
            subprocess.Popen, io.open = saved
            os.chdir(self.w.work)
        return outcome, state["fired"], state["n"]

    # ---------------- oracles
    def foreign_diff(self, op, before, now, sig, where):
        """S4 (and the additive half of S2): keys outside nbdime's own set keep their values, in both scopes."""
        target = "global" if op["global"] else "local"
        for scope in ("local", "global"):
            b, n = before[scope], now[scope]
            if b == n:
                continue
            bd, nd = {}, {}
            for k, v in b:
                bd.setdefault(k, []).append(v)
            for k, v in n:
                nd.setdefault(k, []).append(v)
            for k in sorted(set(bd) | set(nd)):
                if bd.get(k) == nd.get(k):
                    continue
                allowed = False
                if scope == target:
                    if k in OWN_KEYS:
                        allowed = True
                    elif k in DEFAULT_KEYS:
                        if op["enable"]:
                            allowed = bool(op.get("set_default")) and nd.get(k) == ["nbdime"]
                        else:
                            allowed = bd.get(k) == ["nbdime"] and k not in nd
                if not allowed:
                    self.violate("S4", dict(sig, key=k, scope_touched=("target" if scope == target else "other")),
                                 "%s: key %s in %s scope changed from %r to %r (%s)" % (
                                     where, k, scope, bd.get(k), nd.get(k),
                                     "command targets %s scope" % target))
                    return False
        return True

    def attrs_check(self, op, before, now, sig, where):
        target = "global" if op["global"] else "local"
        if before.get("enclosing_attrs") != now.get("enclosing_attrs"):
            self.violate("S4", dict(sig, key="attributes", scope_touched="enclosing"),
                         "%s: the .gitattributes of another work tree (the main work tree this linked work tree belongs to) "
                         "changed: %r -> %r" % (where, before.get("enclosing_attrs"), now.get("enclosing_attrs")))
            return False
        if before.get("home_attrs") != now.get("home_attrs"):
            self.violate("S4", dict(sig, key="attributes", scope_touched="home_dotfile"),
                         "%s: ~/.gitattributes (the attributes file of the home directory's own repository, not one git reads "
                         "globally) changed: %r -> %r" % (where, before.get("home_attrs"), now.get("home_attrs")))
            return False
        if op["enable"] and before.get("info_attrs") != now.get("info_attrs"):
            # wherever a rule is put, there is one per driver: a second copy in another attributes file is a duplicate
            for marker in ("diff=jupyternotebook", "merge=jupyternotebook"):
                def count(o):
                    return sum(1 for key in ("local_attrs", "info_attrs") for l in (o.get(key) or "").splitlines()
                               if marker in l and not l.lstrip().startswith("#"))
                if count(now) > max(count(before), 1):
                    self.violate("S2", dict(sig, what="attrs_duplicate"),
                                 "%s: %d rules with %s across .gitattributes and $GIT_DIR/info/attributes after enable (%d before)" % (
                                     where, count(now), marker, count(before)))
                    return False
        for scope in ("local", "global"):
            b, n = before[scope + "_attrs"], now[scope + "_attrs"]
            if b == n:
                continue
            if scope != target:
                self.violate("S4", dict(sig, key="attributes", scope_touched="other"),
                             "%s: attributes file of the %s scope changed although the command targets %s" % (where, scope, target))
                return False
            if op["enable"]:
                b = b or ""
                if n is None or not n.startswith(b):
                    self.violate("S2", dict(sig, what="attrs_not_kept"),
                                 "%s: previous attributes content is not preserved as a prefix: %r -> %r" % (where, b, n))
                    return False
                added = [l for l in n[len(b):].splitlines() if l.strip()]
                ok_lines = {NB_DIFF_LINE, NB_MERGE_LINE}
                if any(l not in ok_lines for l in added) or len(added) != len(set(added)):
                    self.violate("S2", dict(sig, what="attrs_added"),
                                 "%s: lines added to the attributes file: %r" % (where, added))
                    return False
                for marker in ("diff=jupyternotebook", "merge=jupyternotebook"):
                    cnt_b = sum(1 for l in b.splitlines() if marker in l and not l.lstrip().startswith("#"))
                    cnt_n = sum(1 for l in n.splitlines() if marker in l and not l.lstrip().startswith("#"))
                    if cnt_n > max(cnt_b, 1):
                        self.violate("S2", dict(sig, what="attrs_duplicate"),
                                     "%s: %d lines with %s after enable (%d before)" % (where, cnt_n, marker, cnt_b))
                        return False
            else:
                if _nonnb_lines(b) != _nonnb_lines(n):
                    self.violate("S4", dict(sig, key="attributes", scope_touched="target"),
                                 "%s: disable changed unrelated attributes content: %r -> %r" % (where, b, n))
                    return False
        return True

    def do_cmd(self, op):
        comp = op["component"]
        sig = {"component": comp, "action": "enable" if op["enable"] else "disable",
               "set_default": bool(op.get("set_default"))}
        before = self.observe(probes=False)
        steps = []

        def on_step(n, argv):
            now = self.observe(probes=False)
            steps.append(n)
            self.distinct["step_state"].add(core.sha([comp, op["enable"], n, now["local"], now["global"]])[:12])
            self.foreign_diff(op, before, now, sig, "at step %d (before %s)" % (n, " ".join(map(str, argv[:6]))))

        self.concurrent = None
        self.concurrent_rule = None
        outcome, fired, nsteps = self.run_command(op, before, on_step)
        after = self.observe(probes=True)
        if self.concurrent:
            # the concurrent writer's values must have survived the rest of the command, in both scopes
            for scope in ("local", "global"):
                have = dict(after[scope])
                if scope == "local" and op.get("outside_repo"):
                    pass
                for k, v in self.concurrent.items():
                    if have.get(k) != v and not (scope == "local" and not os.path.exists(os.path.join(self.w.work, ".git"))):
                        self.violate("S4", dict(sig, key=k, scope_touched="concurrent"),
                                     "a setting written by another process between two of nbdime's git config steps was lost or "
                                     "reverted: %s=%r in %s scope, now %r" % (k, v, scope, have.get(k)))
            for label, path in (("local", self.local_attrs), ("global", self.global_attrs)):
                text = self._read(path) or ""
                if self.concurrent_rule not in text.splitlines():
                    self.violate("S4", dict(sig, key="attributes", scope_touched="concurrent"),
                                 "a rule appended to the %s attributes file by another process between two of nbdime's steps "
                                 "was lost: %r not in %r" % (label, self.concurrent_rule, text))
            self.stat("probe_concurrent_writer_survived")
        self.stat("commands")
        self.stat("cmd_%s_%s" % (comp, sig["action"]))
        self.stat("scope_global" if op["global"] else "scope_local")
        self.stat("steps", nsteps)
        self.stat("outcome_" + outcome.split(":")[0])
        if fired:
            self.stat("fault_fired_" + fired)
        if op.get("outside_repo"):
            self.stat("cmd_outside_repo")
        self.log.ev("cmd", op={k: v for k, v in op.items() if k != "op"}, outcome=outcome, fired=fired, steps=nsteps,
                    after=core.sha(after)[:16])
        self.distinct["cmd_state"].add(core.sha([comp, op["enable"], op["global"], op.get("set_default"),
                                                 sorted(before["local"]), sorted(before["global"]),
                                                 before["local_attrs"], before["global_attrs"]])[:12])
        nv = len(self.violations)
        if op["enable"] and fired not in ("kill_before", "kill_after"):
            # whatever happens to it, an enable command takes nothing away: a driver or tool entry that was configured
            # before it ran is still configured afterwards (no "rollback" of a set-up that worked)
            target_ = "global" if op["global"] else "local"
            had = {k for k, _ in before[target_] if k in OWN_KEYS}
            lost = sorted(had - {k for k, _ in after[target_]})
            if lost:
                self.violate("S3", dict(sig, what="enable_removed_entries"),
                             "an enable command (outcome %s, fault %s) removed nbdime entries that were configured before it ran: %r" % (
                                 outcome, fired, lost))
                return
        self.foreign_diff(op, before, after, sig, "after the command")
        self.attrs_check(op, before, after, sig, "after the command")
        if len(self.violations) > nv:
            return
        target = "global" if op["global"] else "local"
        in_repo = not op.get("outside_repo")
        # An undisturbed command addressed to a scope that exists (the repository it is run in, or the global scope) is
        # held to the full property whatever exit status it reports: "it said it failed" does not excuse a disable that
        # leaves a driver routed, or an enable that is not effective.
        undisturbed = not fired and (in_repo or target == "global")
        succeeded = (outcome == "rc0" and not fired) or undisturbed
        if outcome != "rc0" and undisturbed:
            self.stat("undisturbed_command_nonzero_exit")
        if fired == "attrs_readonly" and op["enable"]:
            # the file stays read-only: running the same command again must change nothing (whatever it reports)
            outcome2, _, _ = self.run_command(dict(op, fault=None), after, lambda n, argv: None)
            again = self.observe(probes=True)
            self.stat("probe_idempotence_under_readonly_attributes")
            if again != after:
                diffs = sorted(k for k in after if after[k] != again.get(k))
                self.violate("S1", dict(sig, what=diffs[0], under="readonly_attributes"),
                             "with a read-only attributes file, running the same enable again changed %r: %r -> %r" % (
                                 diffs, {k: after[k] for k in diffs}, {k: again[k] for k in diffs}))
            return
        if not succeeded:
            return
        if not op["enable"]:
            # S3: the drivers are gone from that scope, git no longer routes (unless the other scope still enables)
            other = "local" if target == "global" else "global"
            for what, prefix, routed_key in (("diffdriver", "diff.jupyternotebook.", "routed_diff"),
                                             ("mergedriver", "merge.jupyternotebook.", "routed_merge")):
                if comp not in (what, "config-git"):
                    continue
                if not in_repo and target == "local":
                    continue
                left = [k for k, _ in after[target] if k.startswith(prefix)]
                if left:
                    self.violate("S3", dict(sig, what="driver_left"), "after disable, %s scope still defines %r" % (target, left))
                    return
                other_has = any(k.startswith(prefix) for k, _ in after[other])
                if not other_has and after[routed_key]:
                    self.violate("S3", dict(sig, what="still_routed"),
                                 "after disable git still routes notebooks to nbdime's %s (sentinel invoked)" % what)
                    return
                self.stat("probe_disable_checked")
            return
        # enable: effective + idempotent
        if target == "global" and outcome == "rc0" and comp in ("diffdriver", "mergedriver", "config-git"):
            routed_other, ca = self.probe_other()
            self.stat("probe_global_enable_judged_in_other_repository")
            wanted = [a for a, c in (("diff", "diffdriver"), ("merge", "mergedriver")) if comp in (c, "config-git")]
            missing = [a for a in wanted if ("%s: jupyternotebook" % a) not in ca]
            if missing or ("diff" in wanted and not routed_other):
                self.violate("S5", dict(sig, what="other_repository"),
                             "after a successful enable --global, another repository of the same user does not route notebooks "
                             "to nbdime (check-attr there: %r, diff driver invoked: %s)" % (ca, routed_other))
                return
        if outcome != "rc0":
            sets = []
            if comp in ("difftool", "config-git"):
                sets += ["difftool.nbdime.cmd", "difftool.prompt"] + (["diff.guitool"] if op.get("set_default") else [])
            if comp in ("mergetool", "config-git"):
                sets += ["mergetool.nbdime.cmd", "mergetool.prompt"] + (["merge.tool"] if op.get("set_default") else [])
            if comp in ("diffdriver", "config-git"):
                sets += ["diff.jupyternotebook.command"]
            if comp in ("mergedriver", "config-git"):
                sets += ["merge.jupyternotebook.driver", "merge.jupyternotebook.name"]
            if any(sum(1 for k, _ in before[target] if k == s_) > 1 for s_ in sets):
                # git itself refuses to replace a multi-valued key by a single value ("cannot overwrite multiple
                # values with a single value"); the command reports that failure - nothing further is demanded of it
                self.stat("enable_refused_by_git_multivalued_key")
                return
        if in_repo or target == "global":
            for what, routed_key in (("diffdriver", "routed_diff"), ("mergedriver", "routed_merge")):
                if comp in (what, "config-git") and not after[routed_key]:
                    self.violate("S5", dict(sig, what=what),
                                 "after a successful enable git does not route notebooks to nbdime's %s; check-attr: %r" % (what, after["check_attr"]))
                    return
        have = dict(after[target]) if (in_repo or target == "global") else None
        if have is not None:
            wanted = []
            if comp in ("difftool", "config-git"):
                wanted.append("difftool.nbdime.cmd")
            if comp in ("mergetool", "config-git"):
                wanted.append("mergetool.nbdime.cmd")
            if comp in ("diffdriver", "config-git"):
                wanted.append("diff.jupyternotebook.command")
            if comp in ("mergedriver", "config-git"):
                wanted.append("merge.jupyternotebook.driver")
            missing = [k for k in wanted if k not in have]
            if op.get("set_default"):
                dk = {"difftool": "diff.guitool", "mergetool": "merge.tool"}.get(comp)
                if dk and have.get(dk) != "nbdime":
                    missing.append(dk + "=nbdime")
            if missing:
                self.violate("S6", dict(sig, what=missing[0]), "after a successful enable the %s scope lacks nbdime's own entries %r" % (target, missing))
                return
        if comp in ("difftool", "config-git") and outcome == "rc0" and (in_repo or target == "global"):
            # the tool entry is usable as written: git hands the tool the old and the new version of the notebook
            where = self.w.work if (target == "local" or in_repo) else self.other_repo
            # (a diff driver configured for *.ipynb takes precedence over difftool's helper: nothing to observe then)
            ca = self.w.git("check-attr", "diff", "--", "sp ace.ipynb", check=False, cwd=where).stdout.decode()
            args_seen = self.probe_difftool(where) if "diff: jupyternotebook" not in ca else "skipped"
            if args_seen == "skipped":
                self.stat("difftool_probe_skipped_diff_driver_routed")
            else:
                self.stat("probe_difftool_invocation_checked")
            ok = args_seen == "skipped" or (args_seen is not None and len(args_seen) >= 3 and args_seen[0][0] == "diff" and
                                            args_seen[1][1] == self.nb_clean and args_seen[2][1] == self.nb_dirty)
            if not ok:
                self.violate("S5", dict(sig, what="difftool_invocation"),
                             "after a successful enable, `git difftool --tool=nbdime -- 'sp ace.ipynb'` does not hand nbdime's "
                             "tool the committed and the working version of the notebook: %r" % (args_seen,))
                return
        if comp in ("mergetool", "config-git") and outcome == "rc0" and in_repo:
            seen = self.probe_mergetool()
            if seen == "skipped":
                self.stat("mergetool_probe_skipped")
            else:
                self.stat("probe_mergetool_invocation_checked")
                side = lambda v: self.nb_clean.replace('"metadata": {}', '"metadata": {"side": "%s"}' % v)    # noqa: E731
                ok = seen is not None and len(seen) >= 5 and seen[0][0] == "merge" and seen[1][1] == self.nb_clean and \
                    seen[2][1] == side("main") and seen[3][1] == side("other") and os.path.basename(seen[4][0]) == "x.ipynb"
                if not ok:
                    self.violate("S5", dict(sig, what="mergetool_invocation"),
                                 "after a successful enable, `git mergetool --tool=nbdime` on a conflicted notebook does not hand "
                                 "nbdime's tool base, local, remote and the merged path: %r" % (seen,))
                    return
        op2 = dict(op, fault=None)
        outcome2, _, _ = self.run_command(op2, after, lambda n, argv: None)
        again = self.observe(probes=True)
        self.stat("probe_idempotence_checked")
        if outcome2 != outcome or again != after:
            diffs = [k for k in after if after[k] != again.get(k)]
            self.violate("S1", dict(sig, what=sorted(diffs)[0] if diffs else "outcome"),
                         "running the same enable again changed %r (outcome %s -> %s): %r -> %r" % (
                             diffs, outcome, outcome2, {k: after[k] for k in diffs}, {k: again[k] for k in diffs}))

    def run(self):
        self.setup()
        self.log.ev("start", swarm=self.trace.get("swarm"), world=self.trace["world"])
        for op in self.trace["ops"]:
            if op["op"] == "attrs_ro":
                (self.readonly.add if op["on"] else self.readonly.discard)(op["scope"])
                self.stat("user_toggles_readonly_attributes")
                self.log.ev("attrs_ro", scope=op["scope"], on=op["on"])
                continue
            if op["op"] == "user":
                if op["value"] is None:
                    self.w.git("config", "--" + op["scope"], "--unset-all", op["key"], check=False)
                elif op.get("add"):
                    self.w.git("config", "--" + op["scope"], "--add", op["key"], op["value"], check=False)
                    self.stat("user_edits_multivalued")
                else:
                    # (--replace-all: the key may be multi-valued by now)
                    self.w.git("config", "--" + op["scope"], "--replace-all", op["key"], op["value"], check=False)
                self.stat("user_edits_between_commands")
                self.log.ev("user", key=op["key"], scope=op["scope"], value=op["value"])
                continue
            self.do_cmd(op)
        sample = {"world": self.trace["world"], "ops": [dict(o) for o in self.trace["ops"][:5]]}
        return {"violations": self.violations, "digest": self.log.digest(), "events": self.log.n,
                "stats": self.stats, "distinct": {k: sorted(v) for k, v in self.distinct.items()}, "sample": sample}


def execute(trace, scratch):
    return Runner(trace, scratch).run()


# ------------------------------------------------------------------ minimisation

def shrink(trace, fails, budget):
    ops = core.ddmin(trace["ops"], lambda sub: fails(dict(trace, ops=sub)), budget)
    trace = dict(trace, ops=ops)
    # drop faults, flags
    for i, op in enumerate(list(trace["ops"])):
        if op["op"] != "cmd":
            continue
        for key, val in (("fault", None), ("outside_repo", False), ("set_default", False), ("global", False)):
            if op.get(key) not in (val, None) and budget.left():
                cand = list(trace["ops"])
                cand[i] = dict(cand[i], **{key: val})
                budget.spend()
                if fails(dict(trace, ops=cand)):
                    trace = dict(trace, ops=cand)
    # simplify the world: drop initial config entries and attributes
    world = trace["world"]
    for scope in ("local", "global"):
        ents = core.ddmin(world[scope]["config"],
                          lambda sub: fails(dict(trace, world=dict(world, **{scope: dict(world[scope], config=sub)}))), budget)
        world = dict(world, **{scope: dict(world[scope], config=ents)})
        trace = dict(trace, world=world)
        if world[scope]["attrs"] is not None and budget.left():
            cand = dict(world, **{scope: dict(world[scope], attrs=None)})
            budget.spend()
            if fails(dict(trace, world=cand)):
                world = cand
                trace = dict(trace, world=world)
    for key, val in (("custom_attributesfile", False), ("xdg", "default")):
        if world.get(key) != val and budget.left():
            cand = dict(world, **{key: val})
            budget.spend()
            if fails(dict(trace, world=cand)):
                world = cand
                trace = dict(trace, world=world)
    return trace


# ------------------------------------------------------------------ evidence

def coverage(agg):
    c = agg.counters
    cov = {
        "distinct_nontrivial": len(agg.distinct.get("cmd_state", ())),
        "commands": c.get("commands", 0),
        "git_config_steps_observed": c.get("steps", 0),
        "distinct_step_states": len(agg.distinct.get("step_state", ())),
        "faults_fired": {k[len("fault_fired_"):]: v for k, v in c.items() if k.startswith("fault_fired_")},
        "probes": {k[len("probe_"):]: v for k, v in c.items() if k.startswith("probe_")},
        "simulated_time": "no clock in this subsystem; coverage is counted in commands and git-config step boundaries",
        "real_vs_stub": {"real": ["nbdime.__main__ config-git", "nbdime.vcs.git.{diffdriver,mergedriver,difftool,mergetool} config mains",
                                  "nbdime.utils.locate_gitattributes", "git binary (config, check-attr, diff, merge)"],
                         "simulated": ["HOME/XDG sandbox", "subprocess.Popen seam (step boundaries, kill/lock/spawn faults)",
                                       "io.open seam (EACCES on attributes append)", "sentinel git-nbdiffdriver/git-nbmergedriver scripts as routing probes"],
                         "stub": ["jupyter_server, jinja2 (import-only; not exercised here)"]},
    }
    rule = ("Each run = a seeded initial configuration (merge.tool / diff.guitool unset|nbdime|other, prompts, foreign entries, left-over "
            "nbdime entries, attributes absent|unrelated|nbdime lines|no trailing newline, XDG or custom core.attributesfile; both scopes) "
            "and a seeded sequence of enable/disable commands. distinct_nontrivial counts distinct (command, flags, full prior state of both "
            "scopes and both attributes files) combinations executed.")
    assumptions = [
        "git's parsed view (`git config --list -z`) is the observation, not config-file bytes",
        "system scope is out of reach (GIT_CONFIG_NOSYSTEM=1) and not exercised",
        "own keys are never pre-seeded multi-valued",
        "disable may remove nbdime's own tool/prompt keys and attributes lines without alarm (the statement does not forbid it)",
        "convergence after a crashed enable is not asserted",
    ]
    return cov, rule, assumptions


def self_check(agg, cfg):
    need = ["probe_idempotence_checked", "probe_disable_checked", "scope_global", "scope_local", "cmd_outside_repo",
            "fault_fired_kill_before", "fault_fired_lock"]
    return [k for k in need if not agg.counters.get(k)]
