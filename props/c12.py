"""C12 — diffing is a pure function of its inputs: no dependence on process history.

System under test: one forked child of the template (hash seed A) that lives for a whole
history of diff / merge / decide / ignore-configuration / CLI-parse / failing / aborted calls.
Reference: a *separate interpreter* (hash seed B) forked per compared call; it installs only
the effective ignore options (a small executable model) and performs the one call."""
import argparse
import contextlib
import copy
import io
import json
import os
import random
import sys
import types

from simkit import core, nbgen, refserver
from simkit.core import EventLog, Violation, HarnessError
from simkit.world import World

PROP = "C12"
LEVEL = "exploration"
TIERS = {
    "quick": dict(runs=3000, wall_cap=240, timeout=300, max_ops=20, shrink_seconds=120, shrink_steps=250),
    "thorough": dict(runs=80000, wall_cap=2700, timeout=600, max_ops=40, shrink_seconds=400, shrink_steps=800),
}

SHAPES = ["scalar", "list", "lol", "loo", "obj"]
IGNORE_PATHS_BOOL = ["/cells/*/source", "/cells/*/outputs", "/cells/*/metadata", "/metadata",
                     "/cells/*/outputs/*/metadata", "/cells/*/attachments", "/cells/*/id",
                     "/metadata/alpha", "/cells/*/metadata/beta", "/cells/*/execution_count"]
IGNORE_KEYS = {"/cells/*": [["execution_count"], ["metadata"], ["source", "outputs"]],
               "/metadata": [["alpha"], ["kernelspec", "language_info"], ["beta", "gamma"]],
               "/cells/*/outputs/*": [["execution_count"], ["metadata"], ["data"]],
               "/cells/*/metadata": [["alpha"], ["collapsed", "tags"]]}
MERGE_STRATS = ["inline", "use-base", "use-local", "use-remote"]
OUT_STRATS = MERGE_STRATS + ["remove", "clear-all"]

_REFS = []


def prepare():
    import nbformat  # noqa
    import nbdime  # noqa
    import nbdime.nbdiffapp, nbdime.nbmergeapp  # noqa
    import nbdime.merging.generic  # noqa
    root = core.scratch_root()
    n = int(os.environ.get("VERIF_REFSERVERS") or 4)
    for hs in (101, 202):
        _REFS.append([refserver.RefServer("props.c12", hs, root, tag="-%d" % i) for i in range(n if hs == 101 else max(1, n // 2))])


def teardown():
    for group in _REFS:
        for r in group:
            r.stop()
    del _REFS[:]


def ref_prepare():
    import nbformat  # noqa
    import nbdime  # noqa
    import nbdime.nbdiffapp, nbdime.nbmergeapp  # noqa
    import nbdime.merging.generic  # noqa


def size(trace):
    return len(trace.get("ops", []))


# ------------------------------------------------------------------ the effective-options model

class IgnoreModel:
    """path -> True | sorted list of keys.  Read off set_notebook_diff_ignores: True absorbs key
    lists, key lists accumulate (the new wrapper wraps the current differ), False restores the
    default, reset clears everything."""

    def __init__(self):
        self.state = {}

    def ignores(self, cfg):
        for path, v in cfg.items():
            if v is True:
                self.state[path] = True
            elif v is False:
                self.state.pop(path, None)
            else:
                cur = self.state.get(path)
                if cur is True:
                    continue
                self.state[path] = sorted(set(cur or []) | set(v))

    def targets(self, sources, outputs, attachments, metadata, identifier, details):
        self.ignores({
            '/cells/*/source': not sources,
            '/cells/*/outputs': not outputs,
            '/cells/*/attachments': not attachments,
            '/metadata': not metadata,
            '/cells/*/id': not identifier,
            '/cells/*/metadata': not metadata,
            '/cells/*/outputs/*/metadata': not metadata,
            '/cells/*': False if details else ('execution_count',),
            '/cells/*/outputs/*': False if details else ('execution_count',),
        })

    def reset(self):
        self.state = {}

    def canonical(self):
        return {k: (True if v is True else list(v)) for k, v in sorted(self.state.items())}


# ------------------------------------------------------------------ performing one operation (SUT and reference share this)

_NS_CACHE = {}


def _ns(a):
    """The arguments object of a call.  Like the web server (settings['merge_args']), a long-running process keeps one
    object per distinct set of arguments and hands it to every later call; a fresh process builds it anew."""
    key = json.dumps(a, sort_keys=True)
    if key not in _NS_CACHE:
        _NS_CACHE[key] = _ns_new(a)
    return _NS_CACHE[key]


def _ns_new(a):
    return argparse.Namespace(merge_strategy=a.get("merge_strategy", "inline"), input_strategy=a.get("input_strategy"),
                              output_strategy=a.get("output_strategy"), ignore_transients=a.get("ignore_transients", True),
                              log_level="INFO")


def _collect_ids(nbs):
    ids = set()
    for nb in nbs:
        for c in (nb.get("cells") or []) if isinstance(nb, dict) else []:
            if isinstance(c, dict) and isinstance(c.get("id"), str):
                ids.add(c["id"])
    return ids


def _mask_ids(obj, known):
    if isinstance(obj, dict):
        out = {}
        for k, v in obj.items():
            if k == "id" and isinstance(v, str) and "cell_type" in obj and v not in known:
                out[k] = "<fresh>"
            else:
                out[k] = _mask_ids(v, known)
        return out
    if isinstance(obj, list):
        return [_mask_ids(v, known) for v in obj]
    return obj


_WEB = {}


class _FakeConnection:
    """What a RequestHandler needs of its HTTP connection: somewhere to write the response."""

    def __init__(self):
        self.status, self.headers, self.chunks, self.finished = None, None, [], False

    def set_close_callback(self, cb):
        pass

    def write_headers(self, start_line, headers, chunk=None):
        self.status, self.headers = start_line.code, headers
        if chunk:
            self.chunks.append(bytes(chunk))
        import asyncio
        f = asyncio.get_event_loop().create_future()
        f.set_result(None)
        return f

    def write(self, chunk):
        self.chunks.append(bytes(chunk))
        import asyncio
        f = asyncio.get_event_loop().create_future()
        f.set_result(None)
        return f

    def finish(self):
        self.finished = True


def _web_call(op):
    """One API request to nbdime's web application, the way a long-running server sees it: the application object
    (and whatever it caches in its settings) lives as long as the process; the notebooks are files in the working
    directory, re-read on every request.  No sockets: the real handler runs against an in-memory connection."""
    import asyncio
    from tornado import httputil
    import nbdime.webapp.nbdimeserver as srv
    cwd = os.getcwd()
    if _WEB.get("cwd") != cwd:
        _WEB["app"] = srv.make_app(cwd=cwd, closable=False)
        _WEB["cwd"] = cwd
    names = {}
    for k in ("a", "b", "base", "local", "remote"):
        if k in op:
            names[k] = "web-%s.ipynb" % k
            with open(os.path.join(cwd, names[k]), "w", encoding="utf8") as f:
                json.dump(op[k], f)
    app = _WEB["app"]
    if op["op"] == "web_tool_diff":
        # `nbdiff-web REV REV`: the two notebooks are in-memory blob streams handed to the server at start-up and kept for
        # its lifetime; every request (a page reload) must be answered like the first
        from nbdime.gitfiles import BlobWrapper
        key = core.sha([cwd, op["a"], op["b"]])
        if key not in _WEB.setdefault("tools", {}):
            streams = {}
            for side, k in (("base", "a"), ("remote", "b")):
                st = BlobWrapper(json.dumps(op[k]))
                st.name = "web-%s.ipynb (rev)" % k
                streams[side] = st
            _WEB["tools"][key] = srv.make_app(cwd=cwd, closable=False, difftool_args=streams)
        app = _WEB["tools"][key]
        uri, body = "/api/diff", {}
    elif op["op"] == "web_diff":
        uri, body = "/api/diff", {"base": names["a"], "remote": names["b"]}
    else:
        uri, body = "/api/merge", {"base": names["base"], "local": names["local"], "remote": names["remote"]}
    conn = _FakeConnection()
    loop = asyncio.new_event_loop()
    asyncio.set_event_loop(loop)
    try:
        req = httputil.HTTPServerRequest(method="POST", uri=uri, version="HTTP/1.1",
                                         headers=httputil.HTTPHeaders({"Content-Type": "application/json", "Host": "localhost"}),
                                         body=json.dumps(body).encode("utf8"), host="localhost", connection=conn)
        delegate = app.find_handler(req)
        handler = delegate.handler_class(app, req, **delegate.handler_kwargs)
        transforms = [t(req) for t in app.transforms]
        loop.run_until_complete(handler._execute(transforms, *delegate.path_args, **delegate.path_kwargs))
    finally:
        asyncio.set_event_loop(None)
        loop.close()
    raw = b"".join(conn.chunks)
    try:
        payload = json.loads(raw.decode("utf8")) if conn.status == 200 else None
    except ValueError:
        payload = "<not json>"
    return {"status": conn.status, "body": payload}


def perform(op):
    """Execute a compared operation on fresh deep copies; returns {'value': canon} or {'exc': [type, msg]}."""
    import nbformat
    import nbdime
    from nbdime.merging.notebooks import decide_notebook_merge, merge_notebooks
    nbs = [op[k] for k in ("a", "b", "base", "local", "remote") if k in op]
    known = _collect_ids(nbs)
    try:
        # library callers pass NotebookNodes (read with nbformat) or the plain dicts json.load gave them
        load = copy.deepcopy if op.get("plain") else (lambda nb: nbformat.from_dict(copy.deepcopy(nb)))
        if op["op"] == "diff":
            a, b = load(op["a"]), load(op["b"])
            val = nbdime.diff_notebooks(a, b)
        elif op["op"] == "merge":
            b, l, r = (load(op[k]) for k in ("base", "local", "remote"))
            merged, decisions = merge_notebooks(b, l, r, _ns(op.get("args", {})))
            val = {"merged": merged, "decisions": decisions}
        elif op["op"] == "decide":
            b, l, r = (load(op[k]) for k in ("base", "local", "remote"))
            val = decide_notebook_merge(b, l, r, _ns(dict(op.get("args", {}), merge_strategy="mergetool")))
        elif op["op"] in ("web_diff", "web_merge", "web_tool_diff"):
            val = _web_call(op)
        else:
            raise HarnessError("not a compared op: %r" % op["op"])
        val = json.loads(json.dumps(val))
        return {"value": _mask_ids(val, known)}
    except HarnessError:
        raise
    except Exception as e:
        return {"exc": [type(e).__name__, str(e)[:300]]}


def apply_config_op(op, cwd):
    """Execute a configuration operation literally (SUT; and the model-validation reference)."""
    from nbdime.diffing import notebooks as nbn
    k = op["op"]
    if k == "targets":
        nbn.set_notebook_diff_targets(*op["values"])
        return {"targets": list(op["values"])}
    if k == "ignores":
        nbn.set_notebook_diff_ignores({p: (v if isinstance(v, bool) else list(v)) for p, v in op["cfg"].items()})
        return {"ignores": op["cfg"]}
    if k == "reset":
        nbn.reset_notebook_differ()
        return {"reset": True}
    if k == "cli_parse":
        import nbdime.nbdiffapp as nbdiffapp
        import nbdime.nbmergeapp as nbmergeapp
        from nbdime.args import process_diff_flags
        from nbdime.ignorables import diff_ignorables
        cfgfile = os.path.join(cwd, "nbdime_config.json")
        section = {"nbdiff": "NbDiff", "nbmerge": "NbMerge"}[op["prog"]]
        if op.get("ignore") is not None:
            with open(cfgfile, "w") as f:
                json.dump({section: {"Ignore": op["ignore"]}}, f)
        effects = {}
        try:
            old_argv0 = sys.argv[0]
            sys.argv[0] = op["prog"]
            sink = io.StringIO()
            try:
                with contextlib.redirect_stdout(sink), contextlib.redirect_stderr(sink):
                    if op["prog"] == "nbdiff":
                        args = nbdiffapp._build_arg_parser(prog="nbdiff").parse_args(list(op["flags"]) + ["a.ipynb", "b.ipynb"])
                    else:
                        args = nbmergeapp._build_arg_parser().parse_args(list(op["flags"]) + ["b.ipynb", "l.ipynb", "r.ipynb"])
                    if op.get("ignore"):
                        effects["ignores"] = op["ignore"]
                    given = any(getattr(args, n) is not None for n in diff_ignorables)
                    process_diff_flags(args)
                    if given:
                        effects["targets"] = [args.sources, args.outputs, args.attachments, args.metadata, args.id, args.details]
            finally:
                sys.argv[0] = old_argv0
        except SystemExit as e:
            effects["exit"] = e.code
        finally:
            if os.path.exists(cfgfile):
                os.remove(cfgfile)
        return effects
    raise HarnessError("not a config op: %r" % k)


def ref_call(call):
    """Runs in a fork of the pristine reference template."""
    from nbdime.diffing import notebooks as nbn
    if call.get("literal_history") is not None:
        for cop in call["literal_history"]:
            apply_config_op(cop, os.getcwd())
    elif call.get("model"):
        nbn.set_notebook_diff_ignores({p: (True if v is True else list(v)) for p, v in call["model"].items()})
    return perform(call["op"])


# ------------------------------------------------------------------ generation

def _pool(rng, swarm):
    shapes = swarm["shapes"]
    pool = []
    for _ in range(rng.randint(2, 4)):
        minor = rng.choice([4, 4, 5])
        if swarm.get("edit_kinds") and "dupedit" in swarm["edit_kinds"]:
            minor = 4      # with cell ids the id predicate settles the alignment before the heuristics are consulted
        base = nbgen.notebook(rng, max_cells=max(swarm["max_cells"], 2) if minor == 4 else swarm["max_cells"], minor=minor, shapes=shapes)
        fam = [base]
        focus = rng.randrange(max(1, len(base["cells"]))) if rng.random() < swarm.get("focus_p", 0) else None
        for _ in range(rng.randint(2, 3) if focus is not None else rng.randint(1, 3)):
            # with a focus cell, every member is an independent edit of the base touching that cell (=> conflicts)
            parent = base if focus is not None else rng.choice(fam)
            fam.append(nbgen.edit(rng, parent, shapes=shapes, kinds=swarm.get("edit_kinds"), focus=focus))
        pool.append(fam)
    return pool


def generate(rng, index, cfg):
    swarm = {
        "helpers": rng.choice([["git", "diff3", "diff"], ["git", "diff"], ["diff3"], []]),
        "lru": rng.choice([None, None, 0, 1, 2, 8]),
        "shapes": rng.choice([SHAPES, ["list", "lol", "loo", "obj"], ["lol", "loo"], ["scalar", "obj"], ["scalar", "list"]]),
        "max_cells": rng.choice([1, 2, 3]),
        "w_config": rng.choice([0.0, 0.15, 0.35]),
        "w_perturb": rng.choice([0.0, 0.1, 0.25]),
        "w_merge": rng.choice([0.1, 0.3, 0.5]),
        "focus_p": rng.choice([0.0, 0.5, 0.9, 1.0]),
        "p_repeat": rng.choice([0.0, 0.3, 0.6]),
        "long_p": rng.choice([0.0, 0.0, 0.0, 0.5]),     # outputs longer than the comparators' length limits, common prefix
        "edit_kinds": rng.choice([None, ["src"] * 6 + ["out", "md"], ["dupedit", "dupedit", "out", "src"], ["dupedit", "dupedit", "src", "out"], ["out", "out", "ec", "md", "src"], ["src", "src", "out"], ["ins", "del", "move", "dup", "out"]]),
    }
    # texts with a U+0000 line in many cells (text-merge helpers refuse such input: their failure paths get exercised)
    swarm["nul_p"] = rng.choice([0.0, 0.0, 0.0, 0.0, 0.6])
    nbgen.NUL_P[0] = swarm["nul_p"]
    nbgen.LONG_P[0] = swarm["long_p"]
    if swarm["long_p"]:
        # long outputs are only interesting if they survive into the edited copies: keep payloads, change counts,
        # metadata or just the tail of the text
        swarm["edit_kinds"] = ["outtail", "outmeta", "outlines", "outlines", "src", "dupedit"]
        swarm["max_cells"] = max(swarm["max_cells"], 2)
    try:
        pool = _pool(rng, swarm)
    finally:
        nbgen.LONG_P[0] = 0.0
        nbgen.NUL_P[0] = 0.0
    swarm["web"] = rng.random() < 0.15
    if swarm["web"]:
        swarm["w_merge"] = max(swarm["w_merge"], 0.5)
        swarm["w_config"] = max(swarm["w_config"], 0.15)
    swarm["wide_md"] = rng.random() < 0.06
    if swarm["wide_md"]:
        # saved widget state: hundreds of distinct metadata keys, so that one call consults hundreds of distinct paths
        # (any per-path table in the library grows by that much in one request)
        n = rng.choice([150, 300])
        for mi, nb in enumerate(pool[0]):
            nb["metadata"] = dict(nb.get("metadata") or {}, widgets={
                "model_%03d" % i: {"model_name": "IntSliderModel", "state": {"value": (i * 7 + mi) % 101, "description": "s%d" % i}}
                for i in range(n)})
        swarm["w_config"] = max(swarm["w_config"], 0.15)
    flat = []
    index_of = {}
    for fi, fam in enumerate(pool):
        for ni, nb in enumerate(fam):
            index_of[(fi, ni)] = len(flat)
            flat.append(nb)

    def pick_pair():
        if rng.random() < 0.7:
            fi = rng.randrange(len(pool))
            a, b = rng.randrange(len(pool[fi])), rng.randrange(len(pool[fi]))
            return index_of[(fi, a)], index_of[(fi, b)]
        return rng.randrange(len(flat)), rng.randrange(len(flat))

    def pick_triple():
        fi = rng.randrange(len(pool))
        fam = pool[fi]
        if len(fam) >= 3 and rng.random() < 0.6:
            l, r = rng.sample(range(1, len(fam)), 2)
            return index_of[(fi, 0)], index_of[(fi, l)], index_of[(fi, r)]
        return tuple(index_of[(fi, rng.randrange(len(fam)))] for _ in range(3)) if rng.random() < 0.3 else \
            (index_of[(fi, 0)], index_of[(fi, rng.randrange(len(fam)))], index_of[(fi, rng.randrange(len(fam)))])

    def merge_args():
        a = {"merge_strategy": rng.choice(MERGE_STRATS)}
        if rng.random() < 0.3:
            a["input_strategy"] = rng.choice(MERGE_STRATS)
        if rng.random() < 0.3:
            a["output_strategy"] = rng.choice(OUT_STRATS)
        if rng.random() < 0.2:
            a["ignore_transients"] = False
        return a

    issued = []

    pending = []

    def compared():
        if pending and rng.random() < 0.7:
            return pending.pop(0)
        if issued and rng.random() < swarm.get("p_repeat", 0.0):
            return copy.deepcopy(rng.choice(issued))      # the same call again, later in the history
        op = _compared()
        if swarm.get("web") and rng.random() < 0.5:
            # the same question asked through the web application's API handlers (one application for the whole history)
            if op["op"] == "diff":
                op = {"op": rng.choice(["web_diff", "web_diff", "web_tool_diff"]), "a": op["a"], "b": op["b"]}
                if op["op"] == "web_tool_diff":
                    pending.append(copy.deepcopy(op))      # the same server is asked again later (a page reload)
            else:
                op = {"op": "web_merge", "base": op["base"], "local": op["local"], "remote": op["remote"]}
        elif rng.random() < 0.12:
            op["plain"] = True
        issued.append(op)
        return op

    def _compared():
        r = rng.random()
        if r < swarm["w_merge"]:
            b, l, rr = pick_triple()
            if rng.random() < 0.7:
                return {"op": "merge", "base": b, "local": l, "remote": rr, "args": merge_args()}
            return {"op": "decide", "base": b, "local": l, "remote": rr, "args": {}}
        a, b = pick_pair()
        return {"op": "diff", "a": a, "b": b}

    def config_op():
        r = rng.random()
        if r < 0.25:
            return {"op": "targets", "values": [rng.random() < 0.6 for _ in range(6)]}
        if r < 0.6:
            cfg_ = {}
            for _ in range(rng.randint(1, 3)):
                if rng.random() < 0.6:
                    cfg_[rng.choice(IGNORE_PATHS_BOOL)] = rng.random() < 0.65
                else:
                    p = rng.choice(sorted(IGNORE_KEYS))
                    cfg_[p] = rng.choice(IGNORE_KEYS[p])
            return {"op": "ignores", "cfg": cfg_}
        if r < 0.8:
            return {"op": "reset"}
        flags = []
        if rng.random() < 0.7:
            pos = rng.random() < 0.5
            for short in rng.sample(["s", "o", "a", "m", "i", "d"], rng.randint(1, 3)):
                flags.append("-" + (short if pos else short.upper()))
        if rng.random() < 0.3:
            # the logging level is process-global too (set while parsing); it must never change what a later call returns
            flags += ["--log-level", rng.choice(["DEBUG", "DEBUG", "INFO", "WARN", "ERROR", "CRITICAL"])]
        ignore = None
        if rng.random() < 0.5:
            ignore = {}
            for _ in range(rng.randint(1, 2)):
                if rng.random() < 0.5:
                    ignore[rng.choice(IGNORE_PATHS_BOOL)] = rng.random() < 0.7
                else:
                    p = rng.choice(sorted(IGNORE_KEYS))
                    ignore[p] = rng.choice(IGNORE_KEYS[p])
        return {"op": "cli_parse", "prog": rng.choice(["nbdiff", "nbdiff", "nbmerge"]), "flags": flags, "ignore": ignore}

    def perturb():
        if rng.random() < 0.4:
            return {"op": "bad_call", "kind": rng.choice(["cells_not_list", "source_int", "not_dict", "output_str", "metadata_list"])}
        inner = compared()
        exc = rng.choice(["MemoryError", "RecursionError", "KeyboardInterrupt"])
        r = rng.random()
        if r < 0.4:
            # transient global state exists during merges of both-sided source edits: prefer those as the aborted call
            b, l, rr = pick_triple()
            if rng.random() < 0.5:
                inner = {"op": "decide", "base": b, "local": l, "remote": rr, "args": {}}
            else:
                inner = {"op": "merge", "base": b, "local": l, "remote": rr,
                         "args": {"merge_strategy": rng.choice(["use-local", "use-remote", "use-base", "inline"]),
                                  "input_strategy": rng.choice(["use-local", "use-remote", "use-base"])}}
            # place the fault at an instant at which process-global state is transiently modified
            return {"op": "aborted", "inner": inner, "dirty_pick": rng.random(), "func_pick": rng.random(), "line_pick": rng.random(), "exc": exc}
        if r < 0.75:
            # place the fault inside a (seeded) choice of nbdime function rather than uniformly in time
            return {"op": "aborted", "inner": inner, "func_pick": rng.random(), "line_pick": rng.random(), "exc": exc}
        return {"op": "aborted", "inner": inner, "at_line": rng.choice([rng.randint(1, 60), rng.randint(1, 600), rng.randint(1, 6000)]), "exc": exc}

    ops = []
    for _ in range(rng.randint(2, cfg["max_ops"])):
        r = rng.random()
        if r < swarm["w_config"]:
            ops.append(config_op())
        elif r < swarm["w_config"] + swarm["w_perturb"]:
            ops.append(perturb())
        else:
            ops.append(compared())
    if rng.random() < 0.5:
        # the same call before and after a configuration change, and again after a reset
        x = _compared()
        ops += [x, config_op(), copy.deepcopy(x)]
        if rng.random() < 0.5:
            ops += [{"op": "reset"}, copy.deepcopy(x)]
    if rng.random() < 0.3:
        # key-list ignores on one path, before and after a reset, with calls in between
        pth = rng.choice(sorted(IGNORE_KEYS))
        k1, k2 = rng.sample(IGNORE_KEYS[pth], 2)
        x = _compared()
        ops += [{"op": "ignores", "cfg": {pth: k1}}, x, {"op": "reset"}, copy.deepcopy(x),
                {"op": "ignores", "cfg": {pth: k2}}, copy.deepcopy(x)]
        if rng.random() < 0.5:
            ops += [compared()]
    if ops[-1]["op"] not in COMPARED:
        ops.append(compared())
    return {"swarm": swarm, "pool": flat, "ops": ops}


# ------------------------------------------------------------------ execution

COMPARED = ("diff", "merge", "decide", "web_diff", "web_merge", "web_tool_diff")


def _inline(op, pool):
    out = dict(op)
    for k in ("a", "b", "base", "local", "remote"):
        if k in out and isinstance(out[k], int):
            out[k] = pool[out[k]] if out[k] < len(pool) else {"cells": [], "metadata": {}, "nbformat": 4, "nbformat_minor": 4}
    return out


BAD = {
    "cells_not_list": ({"cells": {"0": 1}, "metadata": {}, "nbformat": 4, "nbformat_minor": 4}, {"cells": {"0": 2}, "metadata": {}, "nbformat": 4, "nbformat_minor": 4}),
    "source_int": ({"cells": [{"cell_type": "markdown", "metadata": {}, "source": 5}], "metadata": {}, "nbformat": 4, "nbformat_minor": 4},
                   {"cells": [{"cell_type": "markdown", "metadata": {}, "source": 6}], "metadata": {}, "nbformat": 4, "nbformat_minor": 4}),
    "not_dict": ("notebook", ["x"]),
    "output_str": ({"cells": [{"cell_type": "code", "metadata": {}, "source": "x", "execution_count": None, "outputs": ["o"]}], "metadata": {}, "nbformat": 4, "nbformat_minor": 4},
                   {"cells": [{"cell_type": "code", "metadata": {}, "source": "x", "execution_count": None, "outputs": ["p"]}], "metadata": {}, "nbformat": 4, "nbformat_minor": 4}),
    "metadata_list": ({"cells": [], "metadata": [1, {"k": 1}, [2]], "nbformat": 4, "nbformat_minor": 4}, {"cells": [], "metadata": [1, {"k": 2}, [3]], "nbformat": 4, "nbformat_minor": 4}),
}


class Runner:
    def __init__(self, trace, scratch):
        self.trace = trace
        self.w = World(scratch, helpers=tuple(trace["swarm"].get("helpers", ["git", "diff3", "diff"])))
        self.log = EventLog(keep=False)
        self.log.add_subst(self.w.root, "$S")
        self.violations = []
        self.stats = {}
        self.distinct = {"abstract_state": set(), "bigram": set()}
        self.model = IgnoreModel()
        self.literal = []
        self.nth = 0

    def stat(self, k, n=1):
        self.stats[k] = self.stats.get(k, 0) + n

    def violate(self, oracle, sig, detail):
        self.log.ev("violation", oracle=oracle, sig=sig)
        self.violations.append(Violation(oracle, sig, detail))

    def abstract_state(self):
        """A coverage measure only (distinct abstract global states reached) - it reads internals defensively so that a
        refactoring of those internals changes the measure, never the verdict."""
        from nbdime.diffing import notebooks as nbn
        try:
            differs = sorted((str(k), getattr(v, "__name__", "?")) for k, v in getattr(nbn, "notebook_differs", {}).items())
            preds = sorted(str(k) for k in getattr(nbn, "notebook_predicates", {}).keys())
        except Exception:
            differs, preds = [], []

        def bucket(f):
            try:
                n = f.cache_info().currsize
            except Exception:
                return -1
            return 0 if n == 0 else (1 if n < 8 else (2 if n < 128 else 3))
        caches = [bucket(f) for name, f in sorted(vars(nbn).items()) if hasattr(f, "cache_info")]
        try:
            flags = [f() for f in _global_state_slots()]
        except Exception:
            flags = []
        return core.sha([preds, differs, caches, [x for x in flags if isinstance(x, str)]])[:12]

    def ref(self, which, call):
        if not _REFS:
            raise HarnessError("reference servers not started")
        env = {k: os.environ[k] for k in ("PATH", "HOME", "TMPDIR", "XDG_CONFIG_HOME", "JUPYTER_CONFIG_DIR", "JUPYTER_CONFIG_PATH",
                                          "JUPYTER_PATH", "JUPYTER_DATA_DIR", "LC_ALL", "LANG", "TZ", "GIT_CONFIG_NOSYSTEM")
               if k in os.environ}
        group = _REFS[which]
        srv = group[int(str(self.trace.get("run_seed") or "0"), 16) % len(group)]
        return refserver.call(srv.sock_path, call, env=env, cwd=self.w.work)

    def compare(self, op, inl, mine, prev_kind):
        self.nth += 1
        kind = op["op"]
        sig = {"op": kind}
        call = {"model": self.model.canonical(), "op": inl}
        theirs = self.ref(0, call)
        self.stat("compared_ops")
        self.stat("compared_" + kind)
        self.stat("ref_forks")
        if self.model.state:
            self.stat("compared_with_ignore_options")
        self.log.ev("cmp", n=self.nth, op=kind, mine=core.sha(mine)[:16], ref=core.sha(theirs)[:16])
        if "value" in theirs and "exc" in mine:
            self.stat("probe_history_induced_failure")
            self.violate("H2", dict(sig, exc=mine["exc"][0]),
                         "call #%d (%s) raises %s: %s in the long-lived process but returns a value in a fresh interpreter; "
                         "ignore options in force: %r" % (self.nth, kind, mine["exc"][0], mine["exc"][1], self.model.canonical()))
            return
        if "exc" in theirs and "value" in mine:
            self.violate("H1", dict(sig, kind="fresh_raises"),
                         "call #%d (%s) returns a value in the long-lived process but raises %r in a fresh interpreter" % (self.nth, kind, theirs["exc"]))
            return
        if "exc" in theirs and "exc" in mine:
            self.stat("both_raise_input_determined")
            if theirs["exc"][0] != mine["exc"][0]:
                self.violate("H1", dict(sig, kind="different_exception"),
                             "call #%d (%s): long-lived process raises %r, fresh interpreter raises %r" % (self.nth, kind, mine["exc"], theirs["exc"]))
            return
        if core.canon(mine["value"]) != core.canon(theirs["value"]):
            after_reset = prev_kind == "reset"
            self.violate("H3" if (after_reset and not self.model.state) else "H1", dict(sig, kind="value"),
                         "call #%d (%s): result differs from the fresh-interpreter result with ignore options %r.\n long-lived: %s\n fresh:      %s" % (
                             self.nth, kind, self.model.canonical(), core.canon(mine["value"])[:700], core.canon(theirs["value"])[:700]))
            return
        self.stat("agree")
        if "value" in mine and mine["value"] not in ([], {}):
            self.stat("agree_nonempty")
        # H4 fresh-vs-fresh under another hash seed, and validation of the options model, on a deterministic sample
        h = int(core.sha([self.trace.get("run_seed"), self.nth])[:8], 16)
        if h % 8 == 0:
            other = self.ref(1, call)
            self.stat("ref_forks")
            self.stat("probe_fresh_vs_fresh")
            if core.canon(other) != core.canon(theirs):
                self.violate("H4", dict(sig, kind="hashseed"),
                             "call #%d (%s): two fresh interpreters with different hash seeds disagree" % (self.nth, kind))
        if h % 8 == 1 and self.literal:
            lit = self.ref(1, {"literal_history": self.literal, "op": inl})
            self.stat("ref_forks")
            self.stat("probe_model_validated")
            if core.canon(lit) != core.canon(theirs):
                raise HarnessError("options model disagrees with a literal replay of the configuration history %r (model %r)" % (
                    self.literal, self.model.canonical()))

    def run(self):
        import nbformat  # noqa
        from nbdime.diffing import notebooks as nbn
        from functools import lru_cache
        from simkit.tracefault import TraceFault, FuncProfile, FuncFault, DirtyProfile
        w = self.w
        w.activate()
        swarm = self.trace["swarm"]
        if swarm.get("lru") is not None:
            # buggify knob: every *bounded* memo of the diffing modules gets another size (a bounded cache may evict at
            # any time, so no correct program relies on what it retains; unbounded ones may carry identity and are left)
            import nbdime.diffing.generic as dg
            for mod in (nbn, dg):
                for name, f in sorted(vars(mod).items()):
                    params = getattr(f, "cache_parameters", None)
                    if callable(params) and hasattr(f, "__wrapped__") and params().get("maxsize") is not None \
                            and getattr(f, "__module__", None) == mod.__name__:
                        setattr(mod, name, lru_cache(maxsize=swarm["lru"], typed=params().get("typed", False))(f.__wrapped__))
                        self.stat("lru_knob_rebound")
        # deterministic ids for conflict-marker cells (masked in comparisons anyway)
        import uuid
        ctr = [0]

        class _U:
            def __init__(self, n):
                self.hex = "%032x" % n

            def __str__(self):
                return self.hex
        def fake_uuid4():
            ctr[0] += 1
            return _U(ctr[0])
        uuid.uuid4 = fake_uuid4
        pool = self.trace["pool"]
        self.log.ev("start", swarm=swarm, pool=len(pool))
        prev_kind = None
        for op in self.trace["ops"]:
            k = op["op"]
            self.stat("ops")
            self.stat("op_" + k)
            if k in COMPARED:
                inl = _inline(op, pool)
                mine = perform(inl)
                self.compare(op, inl, mine, prev_kind)
            elif k in ("targets", "ignores", "reset", "cli_parse"):
                eff = apply_config_op(op, w.work)
                self.literal.append(op)
                if k == "targets":
                    self.model.targets(*op["values"])
                elif k == "ignores":
                    self.model.ignores(op["cfg"])
                elif k == "reset":
                    self.model.reset()
                    self.literal = []
                else:
                    if "ignores" in eff:
                        self.model.ignores(eff["ignores"])
                    if "targets" in eff:
                        self.model.targets(*eff["targets"])
                self.log.ev("config", op=k, eff=eff, model=self.model.canonical())
            elif k == "bad_call":
                import nbdime
                a, b = BAD[op["kind"]]
                try:
                    nbdime.diff_notebooks(copy.deepcopy(a), copy.deepcopy(b))
                    out = "returned"
                except Exception as e:
                    out = type(e).__name__
                    self.stat("perturb_failed_call")
                self.log.ev("bad_call", kind=op["kind"], out=out)
            elif k == "aborted":
                inl = _inline(op["inner"], pool)
                excs = {"MemoryError": MemoryError, "RecursionError": RecursionError, "KeyboardInterrupt": KeyboardInterrupt}
                # one counting pass of the same call: where global state is transiently modified, which nbdime
                # function every line event belongs to, and which instants are clean-up statements (never aborted)
                slots = _global_state_slots()

                def fingerprint():
                    return tuple(f() for f in slots) + (os.getcwd(),)
                dp = DirtyProfile(core.REPO, fingerprint)
                with dp:
                    perform(inl)
                at = None
                if "dirty_pick" in op:
                    inst = dp.transient_instants()
                    if inst:
                        at = inst[min(len(inst) - 1, int(op["dirty_pick"] * len(inst)))]
                        self.stat("probe_abort_placed_in_dirty_window")
                if at is None and "func_pick" in op:
                    names = sorted(set(dp.funcs))
                    if names:
                        fn = names[min(len(names) - 1, int(op["func_pick"] * len(names)))]
                        cnt = dp.funcs.count(fn)
                        at = dp.kth_line_of(fn, 1 + int(op["line_pick"] * cnt))
                        self.distinct.setdefault("abort_function", set()).add(fn)
                if at is None:
                    at = op.get("at_line") or 1
                at = dp.avoid_restoring(at)
                tf = TraceFault(core.REPO, at, excs[op["exc"]])
                tf.avoid_lines = dp.restoring_lines()
                mine = None
                try:
                    with tf:
                        mine = perform(inl)
                except BaseException as e:
                    if not tf.fired:
                        raise
                    mine = None
                if tf.fired:
                    self.stat("fault_fired_" + op["exc"])
                    self.log.ev("aborted", at=op.get("at_line"), exc=op["exc"])
                    import nbdime.merging.generic as mg
                    if getattr(getattr(mg, "_merge_strings", None), "recursion", False):
                        self.stat("probe_abort_inside_string_merge_left_flag")
                else:
                    self.stat("abort_point_beyond_end")
                    if mine is not None:
                        self.compare(op["inner"], inl, mine, prev_kind)
            else:
                raise HarnessError("unknown op %r" % k)
            self.distinct["abstract_state"].add(self.abstract_state())
            self.distinct["bigram"].add("%s>%s" % (prev_kind, k))
            prev_kind = k
        sample = {"swarm": swarm, "n_notebooks": len(pool),
                  "history": [o["op"] + (":" + json.dumps(o.get("cfg") or o.get("values") or o.get("flags") or "") if o["op"] in ("ignores", "targets", "cli_parse") else "")
                              for o in self.trace["ops"]][:40]}
        return {"violations": self.violations, "digest": self.log.digest(), "events": self.log.n,
                "stats": self.stats, "distinct": {k: sorted(v) for k, v in self.distinct.items()}, "sample": sample}


def _global_state_slots():
    """Readers for the process-global state of nbdime's diffing/merging modules, discovered rather than named (a
    refactoring may move a flag): module-level booleans / None, sizes of module-level containers, attributes kept on
    module-level functions.  Each reader tolerates its slot disappearing."""
    import collections
    slots = []
    for name, mod in sorted(sys.modules.items()):
        if mod is None or not name.startswith(("nbdime.merging", "nbdime.diffing", "nbdime.utils", "nbdime.config", "nbdime.args",
                                               "nbdime.prettyprint", "nbdime.log", "nbdime.ignorables")):
            continue
        for k, v in sorted(vars(mod).items(), key=lambda kv: kv[0]):
            if k.startswith("__"):
                continue
            if isinstance(v, bool) or v is None:
                slots.append(lambda mod=mod, k=k: repr(getattr(mod, k, "<gone>"))[:40] if isinstance(getattr(mod, k, None), (bool, type(None), int, str)) else "<obj>")
            elif isinstance(v, (dict, list, set, collections.deque)):
                slots.append(lambda mod=mod, k=k: len(getattr(mod, k, ())) if hasattr(getattr(mod, k, ()), "__len__") else -1)
            elif isinstance(v, types.FunctionType) and v.__module__ == name and v.__dict__:
                for a in sorted(v.__dict__):
                    if a != "__wrapped__":
                        slots.append(lambda v=v, a=a: repr(v.__dict__.get(a, "<gone>"))[:40])
    return slots


def execute(trace, scratch):
    return Runner(trace, scratch).run()


# ------------------------------------------------------------------ minimisation

def _strip(nb):
    return {"cells": [], "metadata": {}, "nbformat": 4, "nbformat_minor": nb.get("nbformat_minor", 4)}


def shrink(trace, fails, budget):
    ops = core.ddmin(trace["ops"], lambda sub: fails(dict(trace, ops=sub)), budget)
    trace = dict(trace, ops=ops)
    # replace 'aborted' ops by nothing / merges by diffs where possible
    for i, op in enumerate(list(trace["ops"])):
        if op["op"] in ("merge", "decide") and budget.left():
            for cand_op in ({"op": "diff", "a": op["base"], "b": op["local"]}, {"op": "diff", "a": op["base"], "b": op["remote"]}):
                cand = list(trace["ops"])
                cand[i] = cand_op
                budget.spend()
                if fails(dict(trace, ops=cand)):
                    trace = dict(trace, ops=cand)
                    break
    # shrink notebooks in the pool: drop cells, metadata keys
    used = set()
    for op in trace["ops"]:
        o = op.get("inner", op)
        for k in ("a", "b", "base", "local", "remote"):
            if isinstance(o.get(k), int):
                used.add(o[k])
    pool = list(trace["pool"])
    for i in sorted(used):
        if i >= len(pool):
            continue
        nb = pool[i]
        # drop cells
        cells = core.ddmin(nb.get("cells", []), lambda sub, i=i: fails(dict(trace, pool=pool[:i] + [dict(pool[i], cells=sub)] + pool[i + 1:])), budget)
        pool[i] = dict(pool[i], cells=cells)
        keys = core.ddmin(sorted(pool[i].get("metadata", {})),
                          lambda sub, i=i: fails(dict(trace, pool=pool[:i] + [dict(pool[i], metadata={k: pool[i]["metadata"][k] for k in sub})] + pool[i + 1:])), budget)
        pool[i] = dict(pool[i], metadata={k: pool[i]["metadata"][k] for k in keys})
        # per-cell: drop outputs and metadata
        for ci, c in enumerate(list(pool[i]["cells"])):
            for field, empty in (("outputs", []), ("metadata", {}), ("attachments", None)):
                if c.get(field) and budget.left():
                    c2 = dict(c)
                    if empty is None:
                        c2.pop(field)
                    else:
                        c2[field] = empty
                    cand = dict(pool[i], cells=pool[i]["cells"][:ci] + [c2] + pool[i]["cells"][ci + 1:])
                    budget.spend()
                    if fails(dict(trace, pool=pool[:i] + [cand] + pool[i + 1:])):
                        pool[i] = cand
                        c = c2
    for i in range(len(pool)):
        if i not in used:
            pool[i] = _strip(pool[i])
    trace = dict(trace, pool=pool)
    sw = dict(trace["swarm"])
    for key, val in (("lru", None), ("helpers", ["git", "diff3", "diff"])):
        if sw.get(key) != val and budget.left():
            cand = dict(sw, **{key: val})
            budget.spend()
            if fails(dict(trace, swarm=cand)):
                sw = cand
                trace = dict(trace, swarm=sw)
    return trace


# ------------------------------------------------------------------ evidence

def coverage(agg):
    c = agg.counters
    cov = {
        "distinct_nontrivial": len(agg.distinct.get("abstract_state", ())),
        "compared_operations": c.get("compared_ops", 0),
        "compared_with_ignore_options_in_force": c.get("compared_with_ignore_options", 0),
        "agreeing_nonempty_results": c.get("agree_nonempty", 0),
        "reference_forks": c.get("ref_forks", 0),
        "distinct_operation_bigrams": len(agg.distinct.get("bigram", ())),
        "faults_fired": {k[len("fault_fired_"):]: v for k, v in c.items() if k.startswith("fault_fired_")},
        "probes": {k[len("probe_"):]: v for k, v in c.items() if k.startswith("probe_")},
        "simulated_time": "the differ has no clock; coverage is counted in operations of one long-lived process and in distinct abstract global states",
        "real_vs_stub": {"real": ["nbdime.diff_notebooks / merge_notebooks / decide_notebook_merge", "set_notebook_diff_targets / set_notebook_diff_ignores / reset_notebook_differ",
                                  "nbdiff / nbmerge argument parsers with nbdime_config.json (Ignore)", "git merge-file / diff3 helpers when on the per-run PATH"],
                         "simulated": ["process history (seeded)", "sys.settrace line-count abort (MemoryError / RecursionError / KeyboardInterrupt at the N-th nbdime line)",
                                       "lru_cache sizes rebound per run (buggify knob)", "per-run PATH deciding which helpers exist"],
                         "reference": ["separate interpreter with another PYTHONHASHSEED, forked per compared call, pristine tables + canonical ignore options"]},
    }
    rule = ("Each run = one history (up to max_ops operations) in one long-lived process over a small pool of notebook families whose metadata / "
            "application/json values reuse the same keys with container types scalar, list, list-of-lists, list-of-objects, object. "
            "distinct_nontrivial counts distinct abstract global states reached: (keys of notebook_predicates, keys+kind of notebook_differs, "
            "bucketed lru_cache fill, recursion flag).")
    assumptions = [
        "a fork of a pristine interpreter that imported nbdime is observationally a freshly started process",
        "the effective-options model (True absorbs key lists, key lists accumulate, False restores, reset clears) — validated at run time against literal replays in a pristine process",
        "ids of conflict-marker cells (random in nbformat) are masked when absent from all inputs",
        "an aborted call's own outcome is never judged",
    ]
    return cov, rule, assumptions


def self_check(agg, cfg):
    need = ["compared_diff", "compared_merge", "compared_decide", "compared_with_ignore_options", "probe_fresh_vs_fresh",
            "probe_model_validated", "fault_fired_MemoryError", "op_reset", "op_cli_parse", "agree_nonempty"]
    return [k for k in need if not agg.counters.get(k)]
