"""C20 — web API agrees with the library and writes only where told at start-up.

System under test: the real entry points (nbdimeserver.main, nbdiffweb.main, nbdifftool.main,
nbmergeweb.main, nbmergetool.main) -> main_server -> init_app -> make_app -> real Tornado
HTTPServer / HTTP1 connection / routing / RequestHandler life-cycle / IOLoop facade.
Simulated: the asyncio loop and clock (SimLoop), sockets (in-memory streams handed to the real
HTTPServer.handle_stream), HTTP clients (raw bytes, scheduler-chosen fragments and virtual delays),
the remote HTTP peer (requests), the web browser; jupyter_server / jinja2 are the stubs."""
import asyncio
import contextlib
import copy
import hashlib
import io
import json
import os
import random
import sys
import types

from simkit import core, nbgen, refserver
from simkit.core import EventLog, Violation, HarnessError
from simkit.world import World

PROP = "C20"
LEVEL = "exploration"
TIERS = {
    "quick": dict(runs=1000, wall_cap=240, timeout=300, max_exchanges=10, shrink_seconds=120, shrink_steps=250),
    "thorough": dict(runs=25000, wall_cap=2700, timeout=600, max_exchanges=30, shrink_seconds=400, shrink_steps=800),
}

MODES = ["server", "diffweb", "difftool", "mergeweb", "mergeweb_out", "mergetool", "diffweb_refs"]
OUTPUT_NAME = {"mergeweb_out": "out-merged.ipynb", "mergetool": "merged.ipynb"}
_REFS = []
_real_open = open     # the harness' own file access never goes through an armed disk-fault seam


def prepare():
    import nbformat  # noqa
    import tornado.web, tornado.httpserver, tornado.netutil, tornado.tcpserver, tornado.iostream  # noqa
    import nbdime.webapp.nbdimeserver, nbdime.webapp.nbdiffweb, nbdime.webapp.nbdifftool  # noqa
    import nbdime.webapp.nbmergeweb, nbdime.webapp.nbmergetool  # noqa
    import simkit.simloop, simkit.simnet  # noqa
    root = core.scratch_root()
    n = int(os.environ.get("VERIF_REFSERVERS") or 4)
    _REFS.extend(refserver.RefServer("props.c20", 303, root, tag="-%d" % i) for i in range(n))


def teardown():
    for r in _REFS:
        r.stop()
    del _REFS[:]


def ref_prepare():
    import nbformat  # noqa
    import nbdime  # noqa
    import nbdime.nbmergeapp  # noqa
    import nbdime.merging.notebooks  # noqa


def size(trace):
    return sum(len(c["exchanges"]) for c in trace["clients"])


# ------------------------------------------------------------------ reference (fresh fork of a pristine interpreter)

def _read_like_server(cwd, arg, urls, fail_on_empty=True):
    """Resolve a notebook argument the way the property describes it: a file name relative to the server's
    working directory, the null file, or a URL answered by the peer."""
    import nbformat
    if not isinstance(arg, str):
        raise ValueError("not a string")
    if arg == "/dev/null":
        return nbformat.v4.new_notebook()
    path = os.path.join(cwd, arg)
    if os.path.exists(path):
        try:
            return nbformat.read(path, as_version=4)
        except nbformat.reader.NotJSONError:
            if fail_on_empty or os.path.getsize(path) != 0:
                raise
            return nbformat.v4.new_notebook()
    if "://" in arg and arg in urls and urls[arg].get("status") == 200:
        return nbformat.reads(urls[arg]["text"], as_version=4)
    raise ValueError("cannot read %r" % (arg,))


def ref_call(call):
    import nbdime
    import nbformat  # noqa
    from nbdime.merging.notebooks import decide_notebook_merge
    from nbdime.nbmergeapp import _build_arg_parser
    cwd, urls = call["cwd"], call.get("urls") or {}
    try:
        if call.get("flags"):
            # the server was started with diff options (nbdiff-web -O, nbmerge-web -s ...): the library is consulted
            # under the same options, set the way the command line tools set them
            import nbdime.nbdiffapp as nbdiffapp
            from nbdime.args import process_diff_flags
            sys.argv[0] = "nbdiff"
            process_diff_flags(nbdiffapp._build_arg_parser(prog="nbdiff").parse_args(list(call["flags"]) + ["x", "y"]))
        if call["op"] == "diff":
            base = _read_like_server(cwd, call["base"], urls)
            remote = _read_like_server(cwd, call["remote"], urls)
            d = nbdime.diff_notebooks(base, remote)
            patched = nbdime.patch_notebook(copy.deepcopy(base), d)
            return {"value": json.loads(json.dumps({"base": base, "diff": d})),
                    "remote": json.loads(json.dumps(remote)), "patched": json.loads(json.dumps(patched))}
        if call["op"] == "diff_text":
            base = nbformat.reads(call["base_text"], as_version=4)
            remote = nbformat.reads(call["remote_text"], as_version=4)
            d = nbdime.diff_notebooks(base, remote)
            patched = nbdime.patch_notebook(copy.deepcopy(base), d)
            return {"value": json.loads(json.dumps({"base": base, "diff": d})),
                    "remote": json.loads(json.dumps(remote)), "patched": json.loads(json.dumps(patched))}
        if call["op"] == "merge":
            foe = not call.get("mergetool")
            b = _read_like_server(cwd, call["base"], urls, foe)
            l = _read_like_server(cwd, call["local"], urls, foe)
            r = _read_like_server(cwd, call["remote"], urls, foe)
            sys.argv[0] = "nbmerge"
            args = _build_arg_parser().parse_args(["", "", ""])
            args.merge_strategy = "mergetool"
            dec = decide_notebook_merge(b, l, r, args=args)
            return {"value": json.loads(json.dumps({"base": b, "merge_decisions": dec}))}
        if call["op"] == "patch_check":
            base = nbformat.from_dict(call["base"])
            patched = nbdime.patch_notebook(base, nbdime.diff_format.to_diffentry_dicts(call["diff"]))
            return {"value": json.loads(json.dumps(patched))}
        if call["op"] == "normalise":
            nb = nbformat.from_dict(call["nb"])
            return {"value": json.loads(json.dumps(nbformat.reads(nbformat.writes(nb), as_version=4)))}
    except Exception as e:
        return {"exc": [type(e).__name__, str(e)[:200]]}
    raise HarnessError("unknown reference op %r" % (call["op"],))


# ------------------------------------------------------------------ generation

def _nb_files(rng):
    base, local, remote = nbgen.triple(rng, max_cells=rng.choice([1, 2, 3]), overlap=0.6, minor=rng.choice([4, 5]))
    other = nbgen.notebook(rng, max_cells=2)
    # a2: a.ipynb with one character replaced - another notebook of exactly the same size
    return {"a.ipynb": base, "b.ipynb": local, "c.ipynb": remote, "sub/d.ipynb": other,
            "a2.ipynb": nbgen.edit(rng, base, n_edits=1, kinds=["samelen"]),
            # a name that ends in a blank is another file than the name without it
            "pad.ipynb ": nbgen.edit(rng, other, n_edits=2), "pad.ipynb": nbgen.edit(rng, local, n_edits=1)}


GOOD = ["a.ipynb", "b.ipynb", "c.ipynb", "sub/d.ipynb", "a2.ipynb", "pad.ipynb ", "pad.ipynb"]   # (v3.ipynb exists too, but converting it draws random cell ids)
BADFILES = ["notes.txt", "empty.ipynb", "broken.ipynb", "nothere.ipynb", "adir.ipynb", "v99.ipynb", " a.ipynb", "c.ipynb\n"]
URL_OK = "http://peer.invalid/nb/ok.ipynb"
URLS_BAD = ["http://peer.invalid/404.ipynb", "http://peer.invalid/500.ipynb", "http://peer.invalid/refused.ipynb",
            "http://peer.invalid/timeout.ipynb", "http://peer.invalid/html.ipynb"]


def _frags(rng, n, style):
    """Fragment sizes for n bytes."""
    if style == "whole" or n == 0:
        return [n]
    out = []
    left = n
    while left > 0:
        if style == "tiny":
            k = rng.randint(1, 7)
        elif style == "mixed":
            k = rng.choice([1, 2, 5, 17, 40, 200, 1000])
        else:
            k = rng.randint(20, 400)
        k = min(k, left)
        out.append(k)
        left -= k
        if len(out) > 400:
            out.append(left)
            break
    return [x for x in out if x > 0]


def generate(rng, index, cfg):
    mode = rng.choice(MODES)
    world = {
        "mode": mode,
        "persist": mode != "server" and rng.random() < 0.35,
        "base_url": rng.choice(["/", "/", "/nbdime/", "/x/y", "/user/alice@example.com/", "/team:data", "/k=v,w/", "/a+b/", "/v1.2/"]),
        "files": _nb_files(rng),
        "peer_latency": rng.choice([0.0, 0.2, 5.0]),
        "pre_existing_output": rng.random() < 0.6,
        "wd_flag": rng.random() < 0.5,
        # git hands the merge tool an empty $BASE for add/add conflicts
        "tool_base": "empty.ipynb" if (mode == "mergetool" and rng.random() < 0.35) else "a.ipynb",
        # the server process is started from another directory than the one it serves (-w DIR)
        "cwd_elsewhere": rng.random() < 0.3,
        # the output file is to be created in a directory that does not exist yet
        "output_in_missing_dir": rng.random() < 0.2,
        # nbdiff-web on two git revisions: the notebooks are blobs (streams), fixed at start-up
        "refs_base_broken": rng.random() < 0.4,
    }
    if mode == "diffweb_refs":
        world["cwd_elsewhere"] = False       # the revisions are resolved in the repository the command is run from
    if world["cwd_elsewhere"]:
        world["wd_flag"] = True
    swarm = {"clients": rng.choice([1, 1, 2, 3, 4]), "net_faults": rng.random() < 0.4, "frag_style": rng.choice(["whole", "mixed", "tiny", "medium"]),
             "p_malformed": rng.choice([0.15, 0.35, 0.6]), "backpressure": rng.choice([None, None, 64, 1000]),
             "disk_faults": rng.random() < 0.25}
    files = world["files"]
    upload_pool = [files["a.ipynb"], files["b.ipynb"], nbgen.notebook(rng, max_cells=2)]
    # diff options given at start-up (they select what /api/diff and /api/merge report, never what /api/store writes)
    world["start_flags"] = []
    if mode != "server" and rng.random() < 0.25:
        world["start_flags"] = rng.choice([["-O"], ["--ignore-outputs"], ["-s"], ["-M"], ["-D"], ["-S"], ["-o"], ["-A", "-I"], ["-m"]])
        if mode in OUTPUT_NAME and not world.get("output_in_missing_dir") and rng.random() < 0.7:
            world["pre_existing_output"] = True
    # a submission that differs from what the output file already holds only in outputs, counts and metadata (the
    # user re-ran cells, or resolved a conflict in an output)
    upload_pool.append(nbgen.edit(rng, files["b.ipynb"], n_edits=rng.randint(1, 3), kinds=["out", "ec", "md", "outmeta", "nbmd"]))
    if rng.random() < 0.25:
        big = nbgen.notebook(rng, max_cells=3, minor=4)
        big["cells"].append({"cell_type": "markdown", "metadata": {}, "source": "".join(rng.choice(nbgen.VOCAB) for _ in range(rng.choice([500, 3000])))})
        upload_pool.append(big)
    huge_at = None
    if mode in OUTPUT_NAME and rng.random() < 0.15:
        # a notebook with an embedded image: a store body of more than a megabyte (tornado's own limit is 100 MB)
        huge = nbgen.notebook(rng, max_cells=1, minor=4)
        huge["cells"].append({"cell_type": "code", "execution_count": 1, "metadata": {}, "source": "plot()",
                              "outputs": [{"output_type": "display_data", "metadata": {},
                                           "data": {"image/png": ("iVBORw0KGgo" + "%08x" % rng.getrandbits(32)) * rng.choice([70000, 160000]) + "\n"}}]})
        upload_pool.append(huge)
        huge_at = len(upload_pool) - 1
    world["alternates"] = [nbgen.edit(rng, files[rng.choice(GOOD[:3])]) for _ in range(3)]
    world["alternates"].append(nbgen.edit(rng, files["a.ipynb"], n_edits=1, kinds=["samelen"]))     # same size as a.ipynb
    # all notebooks carry one and the same modification time (unpacked from an archive, cp -p, rsync -t, a checkout on a
    # file system with coarse timestamps), and files edited between two requests keep it
    world["same_stamp"] = rng.random() < 0.35

    def name(good=True):
        if good:
            r = rng.random()
            if r < 0.8:
                return rng.choice(GOOD)
            if r < 0.88:
                return "../outside/secret.ipynb"
            if r < 0.94:
                return "/dev/null"
            return URL_OK
        if world.get("tool_base") == "empty.ipynb" and rng.random() < 0.5:
            return "empty.ipynb"      # the very file the merge tool was started with
        return rng.choice(BADFILES + URLS_BAD + [5, None, ["a.ipynb"], {"name": "a.ipynb"}])

    def jbody(obj):
        return json.dumps(obj)

    def make_exchange(store_allowed):
        if swarm["clients"] == 1 and rng.random() < 0.12:
            # the user edits a notebook on disk between two requests (only without concurrent clients, so that the
            # reference reads the same version the server read)
            return {"kind": "touch", "file": rng.choice(GOOD[:3] + ["a.ipynb"]), "alt": rng.randrange(4), "start": 0.0}
        malformed = rng.random() < swarm["p_malformed"]
        r = rng.random()
        ex = {"headers": {}, "method": "POST"}
        if r < 0.34:
            ex["path"] = "/api/diff"
            if not malformed:
                ex["kind"] = "diff_valid"
                ex["args"] = {"base": name(), "remote": name()}
                ex["body"] = jbody(ex["args"])
            else:
                ex["kind"] = "diff_malformed"
                k = rng.choice(["badjson", "list", "number", "missing_key", "bad_name", "bad_name", "empty_body"])
                if k == "badjson":
                    ex["body"] = '{"base": "a.ipynb", "remote": '
                elif k == "list":
                    ex["body"] = '["a.ipynb", "b.ipynb"]'
                elif k == "number":
                    ex["body"] = "42"
                elif k == "missing_key":
                    ex["body"] = jbody({"base": "a.ipynb"})
                elif k == "empty_body":
                    ex["body"] = ""
                else:
                    args = {"base": name(), "remote": name()}
                    args[rng.choice(["base", "remote"])] = name(False)
                    ex["args"] = args
                    ex["body"] = jbody(args)
        elif r < 0.55:
            ex["path"] = "/api/merge"
            if not malformed:
                ex["kind"] = "merge_valid"
                ex["args"] = {"base": rng.choice(["a.ipynb", "a.ipynb", "/dev/null", "sub/d.ipynb"]), "local": name(), "remote": name()}
                ex["body"] = jbody(ex["args"])
            else:
                ex["kind"] = "merge_malformed"
                k = rng.choice(["badjson", "missing_key", "bad_name", "bad_name", "string"])
                if k == "badjson":
                    ex["body"] = "{base: a.ipynb}"
                elif k == "missing_key":
                    ex["body"] = jbody({"base": "a.ipynb", "local": "b.ipynb"})
                elif k == "string":
                    ex["body"] = '"a.ipynb"'
                else:
                    args = {"base": "a.ipynb", "local": name(), "remote": name()}
                    args[rng.choice(["base", "local", "remote"])] = name(False)
                    ex["args"] = args
                    ex["body"] = jbody(args)
        elif r < 0.75 and store_allowed:
            ex["path"] = "/api/store"
            extra = {}
            if rng.random() < 0.5:
                for k in rng.sample(["path", "outputfilename", "cwd", "out", "filename", "output"], rng.randint(1, 3)):
                    extra[k] = rng.choice(["a.ipynb", "evil.ipynb", "../outside/secret.ipynb", "sub/evil.ipynb", "$SANDBOX/outside/abs-evil.ipynb", "c.ipynb"])
            if rng.random() < 0.3:
                qk = rng.choice(["path", "outputfilename", "out"])
                ex["path"] += "?%s=%s" % (qk, rng.choice(["evil.ipynb", "a.ipynb", "..%2Foutside%2Fsecret.ipynb"]))
            if rng.random() < 0.2:
                ex["headers"]["X-Output-Filename"] = "evil.ipynb"
            if not malformed:
                ex["kind"] = "store_valid"
                ex["nb"] = huge_at if (huge_at is not None and rng.random() < 0.4) else rng.randrange(len(upload_pool))
                if world["start_flags"] and world.get("pre_existing_output") and rng.random() < 0.45:
                    ex["nb"] = 3      # the variant of the existing output that differs only in outputs / counts / metadata
                ex["body"] = jbody(dict(extra, merged=upload_pool[ex["nb"]]))
            else:
                ex["kind"] = "store_malformed"
                k = rng.choice(["v99", "no_merged", "string", "list", "badjson", "cells_int", "half_nb", "surrogate", "surrogate"])
                bodies = {"v99": dict(extra, merged={"nbformat": 99}), "no_merged": dict(extra, notebook=upload_pool[0]),
                          "string": dict(extra, merged="a.ipynb"), "list": dict(extra, merged=[1, 2]),
                          "cells_int": dict(extra, merged={"cells": 5, "nbformat": 4, "nbformat_minor": 4, "metadata": {}}),
                          "half_nb": dict(extra, merged={"nbformat": 4})}
                if k == "surrogate":
                    # valid JSON, but the text cannot be encoded as UTF-8 (a lone surrogate escape)
                    ex["body"] = jbody(dict(extra, merged={"cells": [{"cell_type": "markdown", "metadata": {}, "source": "lone SURROGATE here"}],
                                                           "metadata": {}, "nbformat": 4, "nbformat_minor": 4})).replace("SURROGATE", "\\ud800")
                else:
                    ex["body"] = '{"merged": {"cells": [' if k == "badjson" else jbody(bodies[k])
        elif r < 0.80:
            ex["path"] = "/api/closetool"
            code = rng.choice([0, 1, 3, 7, -1, 255])
            how = rng.choice(["query", "json", "json", "json_string", "header", "none", "badjson_header", "bad"])
            ex["kind"] = "close"
            ex["exit_code"] = code
            ex["how"] = how
            if how == "query":
                ex["path"] += "?exitCode=%d" % code
                ex["body"] = ""
            elif how == "json":
                ex["body"] = jbody({"exitCode": code})
            elif how == "json_string":
                ex["body"] = jbody({"exitCode": str(code)})
            elif how == "header":
                ex["headers"]["exit_code"] = str(code)
                ex["body"] = "{}"
            elif how == "badjson_header":
                ex["headers"]["exit_code"] = str(code)
                ex["body"] = "not json"
            elif how == "none":
                ex["body"] = "{}"
                ex["exit_code"] = 1
            else:
                ex["body"] = jbody({"exitCode": "seven"})
                ex["kind"] = "close_malformed"
        elif r < 0.90:
            ex["method"] = "GET"
            ex["kind"] = "page_get"
            ex["path"] = rng.choice(["/", "/diff", "/difftool", "/merge", "/mergetool", "/diff?base=a.ipynb&remote=b.ipynb"])
            ex["body"] = ""
        else:
            k = rng.choice(["unknown_path", "bad_method", "no_prefix", "static_traversal", "garbage", "wrong_prefix"])
            ex["kind"] = k
            ex["body"] = ""
            if k == "unknown_path":
                ex["path"] = rng.choice(["/api/nothing", "/api/diff/extra", "/api", "/apidiff"])
                ex["body"] = jbody({"base": "a.ipynb", "remote": "b.ipynb"})
            elif k == "bad_method":
                ex["method"] = rng.choice(["PUT", "DELETE", "GET", "HEAD", "OPTIONS", "PATCH"])
                ex["path"] = rng.choice(["/api/diff", "/api/store", "/api/merge"])
            elif k == "no_prefix":
                ex["path"] = "/api/diff"
                ex["prefix_mode"] = "none"
                ex["body"] = jbody({"base": "a.ipynb", "remote": "b.ipynb"})
            elif k == "wrong_prefix":
                ex["path"] = "/other" + "/api/store"
                ex["body"] = jbody({"merged": upload_pool[0]})
            elif k == "static_traversal":
                ex["method"] = "GET"
                ex["path"] = "/static/../../../nbmergeapp.py"
            else:
                ex["raw"] = "\x16\x03\x01 this is not http\r\n\r\n"
        if ex["kind"] in ("diff_valid", "merge_valid") and rng.random() < 0.2:
            # the same request in another legal JSON spelling: escaped characters, a duplicate key (the last one counts)
            def esc(sv):
                return "".join("\\u%04x" % ord(ch) for ch in sv)
            parts = []
            items = list(ex["args"].items())
            if rng.random() < 0.5:
                parts.append('"%s": "decoy.ipynb"' % items[0][0])
            for k2, v2 in items:
                parts.append('"%s": "%s"' % (esc(k2) if rng.random() < 0.3 else k2, esc(v2) if isinstance(v2, str) else v2))
            ex["body"] = "{ " + " ,\n ".join(parts) + " , \"zz\": 1e999, \"deep\": " + "[" * 30 + "]" * 30 + " }"
        if ex.get("path", "").startswith("/api/") and "?" not in ex["path"] and rng.random() < 0.2:
            ex["path"] += "?" + rng.choice(["cwd=..%2Foutside", "cwd=sub", "workdirectory=%2Ftmp", "base=c.ipynb&remote=c.ipynb",
                                            "outputfilename=evil.ipynb", "closable=true", "persist=false", "base_url=%2Fother"])
        # schedule
        ex["start"] = rng.choice([0.0, 0.0, 0.01, 0.5, 3.0])
        ex["frag_style"] = swarm["frag_style"] if rng.random() < 0.8 else rng.choice(["whole", "tiny"])
        ex["frag_seed"] = rng.getrandbits(30)
        ex["gap"] = rng.choice([0.0, 0.0, 0.001, 0.05, 1.0])
        ex["reuse"] = rng.random() < 0.4
        ex["framing"] = rng.choice(["length"] * 6 + ["chunked", "expect_continue", "http10", "connection_close"])
        ex["net"] = None
        if swarm["net_faults"] and rng.random() < 0.3:
            ex["net"] = rng.choice([{"kind": "close_after", "frac": rng.random()}, {"kind": "reset_after", "frac": rng.random()},
                                    {"kind": "stall", "frac": rng.random(), "seconds": 4000.0},
                                    {"kind": "bad_content_length", "delta": rng.choice([-5, 7, 100])},
                                    {"kind": "close_before_response"}, {"kind": "pipeline"}])
        ex["disk"] = None
        if swarm["disk_faults"] and swarm["clients"] == 1 and rng.random() < 0.4:
            ex["disk"] = rng.choice([{"kind": "vanish_input"}, {"kind": "store_enospc"}, {"kind": "store_eacces"}])
        return ex

    clients = []
    for ci in range(swarm["clients"]):
        exs = []
        for _ in range(rng.randint(1, cfg["max_exchanges"])):
            e = make_exchange(store_allowed=(ci == 0))
            exs.append(e)
            if e["kind"] == "touch":
                # after the file changed on disk, ask again what was asked before
                earlier = [x for x in exs if x["kind"] in ("diff_valid", "merge_valid")]
                if earlier and rng.random() < 0.7:
                    exs.append(copy.deepcopy(rng.choice(earlier)))
        # a successful close ends the session: keep those rare and late
        keep = []
        for i, e in enumerate(exs):
            if e["kind"] == "close" and i < len(exs) - 1 and rng.random() < 0.7:
                continue
            keep.append(e)
        clients.append({"exchanges": keep or exs[:1]})
    return {"swarm": swarm, "world": world, "upload_pool": upload_pool, "clients": clients}


# ------------------------------------------------------------------ execution

class _FakeSocket:
    def __init__(self):
        self.closed = False

    def fileno(self):
        return 999

    def getsockname(self):
        return ("127.0.0.1", 54321)

    def setblocking(self, flag):
        pass

    def close(self):
        self.closed = True

    family = 2


def _snapshot(dirs):
    snap = {}
    for label, d in dirs:
        for dirpath, dirnames, filenames in os.walk(d):
            if ".git" in dirnames:
                dirnames.remove(".git")      # (git's own bookkeeping is not the server's doing)
            dirnames.sort()
            for fn in sorted(filenames):
                p = os.path.join(dirpath, fn)
                try:
                    with _real_open(p, "rb") as f:
                        h = hashlib.sha256(f.read()).hexdigest()
                except OSError:
                    h = "unreadable"
                snap[label + "/" + os.path.relpath(p, d)] = h
            for dn in dirnames:
                snap[label + "/" + os.path.relpath(os.path.join(dirpath, dn), d) + "/"] = "dir"
    return snap


class Runner:
    def __init__(self, trace, scratch):
        self.trace = trace
        self.w = World(scratch, helpers=("git", "diff3", "diff"))
        self.log = EventLog(keep=False)
        self.log.add_subst(self.w.root, "$S")
        self.violations = []
        self.stats = {}
        self.distinct = {"interleaving": set(), "endpoint_outcome": set()}
        self.delivery_log = []
        self.forced_stop = False
        self.server = None
        self.close_ok = []          # exit codes of closetool requests that were answered 200
        self.main_returned = None
        self.probe_result = None

    def stat(self, k, n=1):
        self.stats[k] = self.stats.get(k, 0) + n

    def violate(self, oracle, sig, detail):
        self.log.ev("violation", oracle=oracle, sig=sig)
        self.violations.append(Violation(oracle, sig, detail))

    # ---------------- world
    def setup(self):
        w = self.w
        tw = self.trace["world"]
        w.activate()
        self.outside = os.path.join(w.root, "outside")
        os.makedirs(self.outside)
        os.makedirs(os.path.join(w.work, "sub"))
        os.makedirs(os.path.join(w.work, "adir.ipynb"))
        for name, nb in tw["files"].items():
            with open(os.path.join(w.work, name), "w", encoding="utf8") as f:
                json.dump(nb, f, indent=1)
                f.write("\n")
        if tw.get("same_stamp"):
            for name in tw["files"]:
                os.utime(os.path.join(w.work, name), (1000000000, 1000000000))
        with open(os.path.join(self.outside, "secret.ipynb"), "w") as f:
            json.dump(tw["files"]["a.ipynb"], f)
        with open(os.path.join(w.work, "notes.txt"), "w") as f:
            f.write("just text\n")
        open(os.path.join(w.work, "empty.ipynb"), "w").close()
        with open(os.path.join(w.work, "broken.ipynb"), "w") as f:
            f.write('{"cells": [')
        with open(os.path.join(w.work, "v3.ipynb"), "w") as f:
            json.dump({"nbformat": 3, "nbformat_minor": 0, "metadata": {"name": "old"}, "worksheets": [{"cells": [
                {"cell_type": "code", "language": "python", "metadata": {}, "collapsed": False, "input": "x = 1\nprint(x)", "outputs": [
                    {"output_type": "stream", "stream": "stdout", "text": "1\n"}], "prompt_number": 1},
                {"cell_type": "markdown", "metadata": {}, "source": "old *format*"}], "metadata": {}}]}, f)
        with open(os.path.join(w.work, "v99.ipynb"), "w") as f:
            f.write('{"nbformat": 99, "nbformat_minor": 0, "metadata": {}, "cells": []}')
        self.refs_texts = None
        if tw["mode"] == "diffweb_refs":
            first = '{"cells": [<<<<<<< a committed merge conflict' if tw.get("refs_base_broken") else json.dumps(tw["files"]["a.ipynb"], indent=1)
            second = json.dumps(tw["files"]["b.ipynb"], indent=1)
            if second == first:
                nb2 = copy.deepcopy(tw["files"]["b.ipynb"])
                nb2["metadata"] = dict(nb2.get("metadata") or {}, second_revision=True)
                second = json.dumps(nb2, indent=1)
            w.git("init", "-q", "-b", "main", ".")
            for text, msg in ((first, "one"), (second, "two")):
                with open(os.path.join(w.work, "tracked.ipynb"), "w", encoding="utf8") as f:
                    f.write(text)
                w.git("add", "tracked.ipynb")
                w.tick()
                w.git("commit", "-q", "-m", msg)
            self.refs_texts = (first, second)
        self.output_name = OUTPUT_NAME.get(tw["mode"])
        if self.output_name and tw.get("output_in_missing_dir"):
            self.output_name = "resolved/2026/" + self.output_name
            tw = dict(tw, pre_existing_output=False)
        self.output_path = os.path.join(w.work, self.output_name) if self.output_name else None
        if self.output_path and tw["pre_existing_output"]:
            with open(self.output_path, "w") as f:
                json.dump(tw["files"]["b.ipynb"], f, indent=1)
                f.write("\n")
        self.urls = {URL_OK: {"status": 200, "text": json.dumps(tw["files"]["c.ipynb"])},
                     URLS_BAD[0]: {"status": 404, "text": "not found"}, URLS_BAD[1]: {"status": 500, "text": "oops"},
                     URLS_BAD[2]: {"raise": "ConnectionError"}, URLS_BAD[3]: {"raise": "Timeout"},
                     URLS_BAD[4]: {"status": 200, "text": "<html>not a notebook</html>"}}
        # nbdime.config computes the default working directory when it is imported; the template imported it
        # elsewhere, so re-evaluate it as a process started in the sandbox would have
        import nbdime.config as nbconfig
        nbconfig.config_instance(nbconfig.Web).workdirectory = os.path.abspath(os.curdir)
        self.snap_dirs = [("work", w.work), ("outside", self.outside), ("home", w.home)]
        self.elsewhere = os.path.join(w.root, "elsewhere")
        os.makedirs(self.elsewhere)
        # decoys: same names, other content - a read or write relative to the process cwd shows up as a wrong answer
        # or as a change in this directory
        for name, src in (("a.ipynb", "c.ipynb"), ("b.ipynb", "sub/d.ipynb")):
            with open(os.path.join(self.elsewhere, name), "w") as f:
                json.dump(tw["files"][src], f)
        self.snap_dirs.append(("elsewhere", self.elsewhere))
        self.closable = tw["mode"] != "server" and not tw["persist"]
        self.prefix = "" if tw["base_url"] == "/" else tw["base_url"].rstrip("/")

    def entry(self):
        tw = self.trace["world"]
        from nbdime.webapp import nbdimeserver, nbdiffweb, nbdifftool, nbmergeweb, nbmergetool
        common = ["--base-url", tw["base_url"]]
        if tw.get("start_flags") and tw["mode"] != "server":
            common = list(tw["start_flags"]) + common
        if tw["wd_flag"]:
            common += ["-w", self.w.work]
        if tw["persist"]:
            common += ["--persist"]
        mode = tw["mode"]
        if mode == "server":
            return "nbdime-server", nbdimeserver.main, common + ["--port", "0"] if False else common
        if mode == "diffweb":
            return "nbdiff-web", nbdiffweb.main, common + ["a.ipynb", "b.ipynb"]
        if mode == "diffweb_refs":
            return "nbdiff-web", nbdiffweb.main, common + ["HEAD~1", "HEAD"]
        if mode == "difftool":
            return "git-nbdifftool", nbdifftool.main, common + ["a.ipynb", "b.ipynb"]
        if mode == "mergeweb":
            return "nbmerge-web", nbmergeweb.main, common + ["a.ipynb", "b.ipynb", "c.ipynb"]
        if mode == "mergeweb_out":
            return "nbmerge-web", nbmergeweb.main, common + ["a.ipynb", "b.ipynb", "c.ipynb", "--out", self.output_name]
        if mode == "mergetool":
            return "git-nbmergetool", nbmergetool.main, common + [tw.get("tool_base", "a.ipynb"), "b.ipynb", "c.ipynb", self.output_name]
        raise HarnessError("mode %r" % mode)

    # ---------------- reference
    def ref(self, call):
        srv = _REFS[int(str(self.trace.get("run_seed") or "0"), 16) % len(_REFS)]
        env = {k: os.environ[k] for k in ("PATH", "HOME", "TMPDIR", "JUPYTER_CONFIG_DIR", "JUPYTER_CONFIG_PATH", "JUPYTER_PATH", "JUPYTER_DATA_DIR")
               if k in os.environ}
        self.stat("ref_forks")
        return refserver.call(srv.sock_path, dict(call, cwd=self.w.work, urls=self.urls, flags=self.trace["world"].get("start_flags") or []),
                              env=env, cwd=self.w.work)

    # ---------------- the simulated peer (requests)
    def fake_requests(self):
        import requests as real
        runner = self

        class Resp:
            def __init__(self, url, status, text):
                self.url, self.status_code, self.text = url, status, text

            def raise_for_status(self):
                if self.status_code >= 400:
                    raise real.exceptions.HTTPError("%d Error for url: %s" % (self.status_code, self.url))

        def get(url, *a, **kw):
            runner.stat("peer_requests")
            spec = runner.urls.get(url)
            runner.loop._vtime += runner.trace["world"]["peer_latency"]   # requests.get blocks the loop
            runner.log.ev("peer", url=url, known=spec is not None)
            if spec is None or spec.get("raise") == "ConnectionError":
                runner.stat("fault_fired_peer_connection_error")
                raise real.exceptions.ConnectionError("simulated: cannot connect to %s" % url)
            if spec.get("raise") == "Timeout":
                runner.stat("fault_fired_peer_timeout")
                raise real.exceptions.Timeout("simulated timeout")
            if spec["status"] >= 400:
                runner.stat("fault_fired_peer_http_error")
            return Resp(url, spec["status"], spec["text"])
        return types.SimpleNamespace(get=get, exceptions=real.exceptions)

    # ---------------- clients
    def full_path(self, ex):
        pm = ex.get("prefix_mode", "correct")
        if pm == "correct":
            return self.prefix + ex["path"]
        if pm == "none":
            return ex["path"] if self.prefix else "/zzz" + ex["path"]
        return "/other" + self.prefix + ex["path"]

    def build_request(self, ex):
        if "raw" in ex:
            return ex["raw"].encode("latin1")
        body = (ex.get("body") or "").replace("$SANDBOX", self.w.root).encode("utf8")   # absolute names stay inside the sandbox
        clen = len(body)
        net = ex.get("net") or {}
        framing = ex.get("framing", "length")
        if net.get("kind") == "bad_content_length":
            clen = max(0, clen + net["delta"])
            framing = "length"
        version = "HTTP/1.0" if framing == "http10" else "HTTP/1.1"
        lines = ["%s %s %s" % (ex["method"], self.full_path(ex), version), "Host: 127.0.0.1:54321"]
        has_body = ex["method"] != "GET" or bool(body)
        if has_body:
            lines.append("Content-Type: application/json")
            if framing == "chunked":
                lines.append("Transfer-Encoding: chunked")
            else:
                lines.append("Content-Length: %d" % clen)
            if framing == "expect_continue":
                lines.append("Expect: 100-continue")
        if framing == "connection_close":
            lines.append("Connection: close")
        for k, v in (ex.get("headers") or {}).items():
            lines.append("%s: %s" % (k, v))
        head = ("\r\n".join(lines) + "\r\n\r\n").encode("latin1")
        if has_body and framing == "chunked":
            rng = random.Random(ex.get("frag_seed", 0) ^ 0xC4)
            out, pos = [], 0
            while pos < len(body):
                n = rng.choice([1, 7, 64, 1000, len(body)])
                piece = body[pos:pos + n]
                out.append(b"%x\r\n" % len(piece) + piece + b"\r\n")
                pos += len(piece)
            out.append(b"0\r\n\r\n")
            return head + b"".join(out)
        return head + body

    async def client(self, ci, spec):
        from simkit.simnet import Link, SimStream, read_response
        loop = self.loop
        link = None
        for xi, ex in enumerate(spec["exchanges"]):
            if self.main_returned is not None:
                return
            await asyncio.sleep(ex.get("start", 0.0))
            if ex["kind"] == "touch":
                alts = self.trace["world"].get("alternates") or []
                if alts and len(self.trace["clients"]) == 1:
                    with _real_open(os.path.join(self.w.work, ex["file"]), "w", encoding="utf8") as f:
                        json.dump(alts[ex["alt"] % len(alts)], f, indent=1)
                        f.write("\n")
                    if self.trace["world"].get("same_stamp"):
                        os.utime(os.path.join(self.w.work, ex["file"]), (1000000000, 1000000000))
                    self.snap = _snapshot(self.snap_dirs)
                    self.stat("probe_input_file_edited_between_requests")
                    self.log.ev("touch", file=ex["file"], alt=ex["alt"])
                continue
            net = ex.get("net") or {}
            if link is None or not ex.get("reuse") or link.server_closed or link.client_closed:
                link = Link(loop, self.log, "c%d.%d" % (ci, xi))
                link.write_quota = self.trace["swarm"].get("backpressure")
                stream = SimStream(link)
                self.server.handle_stream(stream, ("127.0.0.1", 40000 + ci))
                self.stat("connections")
            else:
                self.stat("connections_reused")
            raw = self.build_request(ex)
            if net.get("kind") == "pipeline" and ex["kind"] in ("store_valid", "store_malformed", "close", "close_malformed"):
                # a second copy of a *state-changing* request may be served at any later time (or never): which exchange
                # its effect belongs to is not decidable by the per-exchange bookkeeping - such requests are not pipelined
                net = {}
            if net.get("kind") == "pipeline":
                raw = raw + raw
            frags = _frags(random.Random(ex.get("frag_seed", 0)), len(raw), ex.get("frag_style", "whole"))
            cut = None
            if net.get("kind") in ("close_after", "reset_after", "stall"):
                cut = int(net["frac"] * len(raw))
            before_output = self.read_output()
            sent = 0
            aborted = None
            self.stat("exchanges")
            self.stat("kind_" + ex["kind"])
            self.stat("framing_" + ex.get("framing", "length"))
            if ex["kind"] in ("store_valid", "store_malformed"):
                self.pending_store = ex
                self.store_inflight = True
            if ex["kind"] in ("close", "close_malformed"):
                self.inflight_close.append((ex, link))
            if ex.get("disk"):
                self.arm_disk_fault(ex)
            for n in frags:
                chunk = raw[sent:sent + n]
                if cut is not None and sent + n > cut:
                    chunk = raw[sent:cut]
                    if chunk:
                        link.deliver(chunk)
                        self.delivery_log.append((ci, "d"))
                    sent = cut
                    if net["kind"] == "close_after":
                        link.close_from_client()
                        self.stat("fault_fired_net_close_mid_request")
                        aborted = "close"
                    elif net["kind"] == "reset_after":
                        link.reset_connection()
                        self.stat("fault_fired_net_reset_mid_request")
                        aborted = "reset"
                    else:
                        self.stat("fault_fired_net_stall")
                        await asyncio.sleep(net["seconds"])
                        aborted = "stall"
                    break
                link.deliver(chunk)
                self.delivery_log.append((ci, "d"))
                sent += n
                if sent >= len(raw) and ex["kind"] in ("close", "close_malformed") and ex not in self.close_delivered:
                    self.close_delivered.append(ex)      # (the loop may stop before this coroutine runs again)
                if ex.get("gap"):
                    await asyncio.sleep(ex["gap"])
                else:
                    await asyncio.sleep(0)
            if ex["kind"] in ("close", "close_malformed") and aborted is None and ex not in self.close_delivered:
                self.close_delivered.append(ex)
            if net.get("kind") == "close_before_response" and aborted is None:
                link.close_from_client()
                self.stat("fault_fired_net_close_before_response")
                aborted = "close_early"
            resp = None
            if aborted in (None, "stall", "close_early"):
                resp = await read_response(link, 30.0 if aborted is None else 5.0, no_body=(ex.get("method") == "HEAD"))
                self.delivery_log.append((ci, "r"))
            else:
                # let the server notice
                await asyncio.sleep(0.1)
            resp2 = None
            if net.get("kind") == "pipeline" and resp is not None:
                resp2 = await read_response(link, 30.0)
            self.disarm_disk_fault()
            self.evaluate(ci, xi, ex, resp, aborted, before_output, resp2)
            import gc
            gc.collect()      # the simulator decides when cyclic garbage (dropped connections) is finalised
            if resp is not None and resp.headers.get("connection", "").lower() == "close":
                link.close_from_client()
            if aborted or ex.get("net") or "raw" in ex or ex.get("framing") in ("http10", "connection_close"):
                link = None     # a connection whose framing was disturbed is never reused

    # ---------------- disk faults on the server side
    def arm_disk_fault(self, ex):
        import builtins
        kind = ex["disk"]["kind"]
        runner = self
        self._saved_open = (builtins.open, io.open)
        real_open = builtins.open
        self.disk_fired = None

        def opener(file, mode="r", *a, **kw):
            p = os.fspath(file) if not isinstance(file, int) else None
            if p is not None:
                ap = os.path.abspath(p)
                if kind == "vanish_input" and ap.startswith(runner.w.work + os.sep) and ap.endswith(".ipynb") and "r" in mode and "+" not in mode and ap != runner.output_path:
                    if runner.disk_fired is None:
                        runner.disk_fired = "vanish_input"
                        raise FileNotFoundError(2, "No such file or directory (injected)", p)
                if ap == runner.output_path and any(c in mode for c in "wa+"):
                    if kind == "store_eacces":
                        runner.disk_fired = "store_eacces"
                        raise PermissionError(13, "Permission denied (injected)", p)
                    if kind == "store_enospc":
                        runner.disk_fired = "store_enospc"
                        f = real_open(file, mode, *a, **kw)

                        class Full:
                            def __init__(self, f):
                                self.f = f

                            def write(self, s):
                                raise OSError(28, "No space left on device (injected)")

                            def __enter__(self):
                                return self

                            def __exit__(self, *x):
                                self.f.close()
                                return False

                            def __getattr__(self, n):
                                return getattr(self.f, n)
                        return Full(f)
            return real_open(file, mode, *a, **kw)
        builtins.open = opener
        io.open = opener

    def disarm_disk_fault(self):
        import builtins
        if getattr(self, "_saved_open", None):
            builtins.open, io.open = self._saved_open
            self._saved_open = None
            if self.disk_fired:
                self.stat("fault_fired_disk_" + self.disk_fired)

    def read_output(self):
        if not self.output_path:
            return None
        try:
            with _real_open(self.output_path, "rb") as f:
                return f.read()
        except OSError:
            return None

    # ---------------- oracles
    @staticmethod
    def expected_exit_code(ex):
        """The exit code a well-formed, undisturbed closetool request submits; None = not determined by the request."""
        if ex["kind"] == "close" and not ex.get("net"):
            return ex.get("exit_code")
        return None

    def check_fs(self, ex, sig, allowed_output_change):
        snap = _snapshot(self.snap_dirs)
        changed = sorted(k for k in set(snap) | set(self.snap) if snap.get(k) != self.snap.get(k))
        outkey = ("work/" + self.output_name) if self.output_name else None
        bad = [k for k in changed if k != outkey]
        if bad:
            self.violate("W3", dict(sig, what="foreign_path"),
                         "file system changed outside the output file fixed at start-up: %r (request: %s %s body %s)" % (
                             bad, ex.get("method"), ex.get("path"), (ex.get("body") or "")[:200]))
        elif outkey in changed and not allowed_output_change:
            if self.store_inflight:
                # another client's store is in flight: its own evaluation judges the output file
                snap[outkey] = self.snap.get(outkey)
                if snap[outkey] is None:
                    del snap[outkey]
            else:
                self.violate("W4" if ex["kind"] != "store_valid" else "W3", dict(sig, what="output_changed"),
                             "the output file changed although this exchange may not change it (kind %s)" % ex["kind"])
        self.snap = snap
        return not bad

    def evaluate(self, ci, xi, ex, resp, aborted, before_output, resp2):
        kind = ex["kind"]
        status = resp.status if resp is not None else None
        sig = {"kind": kind, "mode": self.trace["world"]["mode"]}
        disk = getattr(self, "disk_fired", None)
        self.log.ev("exchange", c=ci, x=xi, kind=kind, status=status, aborted=aborted, disk=disk,
                    body=core.sha(resp.body)[:12] if (resp is not None and resp.status == 200) else None)
        self.stat("status_%s" % (status if status is not None else "none"))
        self.distinct["endpoint_outcome"].add("%s|%s|%s" % (kind, status, aborted))
        mode = self.trace["world"]["mode"]
        has_output = self.output_path is not None
        after_output = self.read_output()
        complete = aborted is None and (ex.get("net") or {}).get("kind") not in ("bad_content_length",)
        # ---- store
        if kind in ("store_valid", "store_malformed"):
            self.store_inflight = False
            changed = after_output != before_output
            if status == 200:
                if not has_output:
                    self.violate("W3", dict(sig, what="store_without_output"), "store answered 200 although no output file was fixed at start-up")
                elif kind == "store_valid":
                    want = self.ref({"op": "normalise", "nb": self.trace["upload_pool"][ex["nb"]]})
                    try:
                        got = self.ref({"op": "normalise", "nb": json.loads(after_output.decode("utf8"))})
                    except Exception:
                        got = {"exc": "unparsable"}
                    if "value" not in want or got != want:
                        self.violate("W3", dict(sig, what="stored_content"), "store answered 200 but the output file does not hold the submitted notebook")
                    else:
                        self.stat("probe_store_written_and_verified")
                else:
                    # a body that is not a notebook was accepted: whatever was written must be what was submitted
                    self.stat("store_malformed_accepted")
                self.check_fs(ex, sig, allowed_output_change=has_output)
            else:
                if changed and not (disk and kind == "store_valid") and not (kind == "store_valid" and not complete):
                    self.violate("W4", dict(sig, what="output_changed_on_error"),
                                 "store was answered with %s (aborted=%s) but the output file changed: %d -> %d bytes; body %s" % (
                                     status, aborted, len(before_output or b""), len(after_output or b""), (ex.get("body") or "")[:160]))
                    self.snap = _snapshot(self.snap_dirs)
                else:
                    self.check_fs(ex, sig, allowed_output_change=bool((disk or not complete) and kind == "store_valid"))
                if kind == "store_valid" and complete and not disk and has_output and status is not None and status >= 400 \
                        and not self.trace["world"].get("output_in_missing_dir"):
                    self.violate("W3", dict(sig, what="valid_store_refused"), "a valid store request to a server with an output file was answered %s" % status)
                if not has_output and status is not None and status < 400:
                    self.violate("W3", dict(sig, what="store_without_output"), "store answered %s although no output file was fixed" % status)
                if not has_output and status == 400:
                    self.stat("probe_store_refused_without_output")
            return
        # ---- everything else never changes the disk
        self.check_fs(ex, sig, allowed_output_change=False)
        if kind in ("diff_valid", "diff_malformed") and complete:
            args = ex.get("args")
            if mode == "difftool":
                args = {"base": "a.ipynb", "remote": "b.ipynb"}
            if mode == "diffweb_refs":
                args = {"base": "HEAD~1:tracked.ipynb", "remote": "HEAD:tracked.ipynb"}
            if args is None or (kind == "diff_malformed" and mode not in ("difftool", "diffweb_refs") and "args" not in ex):
                if mode not in ("difftool", "diffweb_refs") and status is not None and status < 400:
                    self.violate("W4", dict(sig, what="malformed_accepted"), "malformed diff request answered %s: %s" % (status, (ex.get("body") or "")[:100]))
                return
            if disk == "vanish_input":
                if status is not None and status < 400 and False:
                    pass
                return
            if mode == "diffweb_refs":
                theirs = self.ref({"op": "diff_text", "base_text": self.refs_texts[0], "remote_text": self.refs_texts[1]})
                self.stat("probe_diff_of_git_blobs")
            else:
                theirs = self.ref({"op": "diff", "base": args.get("base"), "remote": args.get("remote")})
            if "exc" in theirs:
                if status is not None and status < 400:
                    self.violate("W4" if kind == "diff_malformed" else "W1", dict(sig, what="error_not_reported"),
                                 "the library cannot answer this diff (%r) but the server answered %s" % (theirs["exc"], status))
                else:
                    self.stat("diff_error_agreed")
                return
            if status != 200:
                self.violate("W1", dict(sig, what="valid_refused"),
                             "diff of %r answered %s although a fresh process computes it (request #%d of client %d)" % (args, status, xi, ci))
                return
            try:
                body = json.loads(resp.body.decode("utf8"))
            except Exception as e:
                self.violate("W1", dict(sig, what="not_json"), "200 response body is not JSON: %s" % e)
                return
            if core.canon(body.get("base")) != core.canon(theirs["value"]["base"]):
                self.violate("W1", dict(sig, what="base"), "returned base notebook differs from the notebook stored under %r" % (args.get("base"),))
                return
            if core.canon(body.get("diff")) != core.canon(theirs["value"]["diff"]):
                self.violate("W1", dict(sig, what="diff"),
                             "diff differs from what a fresh process computes for %r (request #%d of client %d)" % (args, xi, ci))
                return
            if self.trace["world"].get("start_flags"):
                # (a diff restricted by start-up options says nothing about the ignored parts: no round trip)
                self.stat("probe_diff_agreed_under_startup_flags")
                return
            if core.canon(theirs["patched"]) != core.canon(theirs["remote"]):
                # Python's == conflates True/1/1.0 and False/0/0.0; canonical JSON does not.  Tell that specific
                # failure shape apart so that any other patch mismatch is still reported on its own.
                what = "patch_bool_number_conflation" if theirs["patched"] == theirs["remote"] else "patch"
                self.violate("W1", {"kind": kind, "what": what},
                             "patching the returned base with the returned diff does not give the remote notebook %r (base %r)%s" % (
                                 args.get("remote"), args.get("base"),
                                 ": they differ only in bool-vs-number leaves (e.g. false vs 0)" if what != "patch" else ""))
                return
            self.stat("probe_diff_agreed")
            return
        if kind in ("merge_valid", "merge_malformed") and complete:
            args = ex.get("args")
            if mode == "mergetool":
                args = {"base": self.trace["world"].get("tool_base", "a.ipynb"), "local": "b.ipynb", "remote": "c.ipynb"}
            if args is None:
                if status is not None and status < 400:
                    self.violate("W4", dict(sig, what="malformed_accepted"), "malformed merge request answered %s" % status)
                return
            if disk == "vanish_input":
                return
            theirs = self.ref({"op": "merge", "base": args.get("base"), "local": args.get("local"), "remote": args.get("remote"),
                               "mergetool": mode == "mergetool"})
            if "exc" in theirs:
                if status is not None and status < 400:
                    self.violate("W4" if kind == "merge_malformed" else "W2", dict(sig, what="error_not_reported"),
                                 "the library cannot answer this merge (%r) but the server answered %s" % (theirs["exc"], status))
                else:
                    self.stat("merge_error_agreed")
                return
            if status != 200:
                self.violate("W2", dict(sig, what="valid_refused"), "merge of %r answered %s although a fresh process computes it" % (args, status))
                return
            try:
                body = json.loads(resp.body.decode("utf8"))
            except Exception as e:
                self.violate("W2", dict(sig, what="not_json"), "200 response body is not JSON: %s" % e)
                return
            if core.canon(body.get("merge_decisions")) != core.canon(theirs["value"]["merge_decisions"]) or \
                    core.canon(body.get("base")) != core.canon(theirs["value"]["base"]):
                self.violate("W2", dict(sig, what="decisions"), "merge decisions differ from what a fresh process computes for %r" % (args,))
                return
            self.stat("probe_merge_agreed")
            return
        if kind in ("close", "close_malformed"):
            self.evaluated_close.add(id(ex))
            if status == 200:
                self.close_ok.append(self.expected_exit_code(ex))
                if not self.closable:
                    self.violate("W5", dict(sig, what="closed_nonclosable"), "closetool answered 200 on a session that was not started as closable")
            elif complete and status is not None and self.closable and kind == "close" and status >= 400:
                self.violate("W5", dict(sig, what="close_refused"), "well-formed closetool (%s) answered %s on a closable session" % (ex.get("how"), status))
            if not self.closable and complete and status is not None and status < 400:
                self.violate("W5", dict(sig, what="closed_nonclosable"), "closetool answered %s on a non-closable session" % status)
            if not self.closable and status == 400:
                self.stat("probe_close_refused_nonclosable")
            return
        if kind == "page_get" and complete:
            if status != 200:
                self.violate("W4", dict(sig, what="page"), "GET %s answered %s" % (self.full_path(ex), status))
            return
        if kind in ("unknown_path", "bad_method", "no_prefix", "wrong_prefix", "static_traversal", "garbage") and complete:
            if status is not None and status < 400:
                self.violate("W4", dict(sig, what="error_status"), "%s request (%s %s) answered %s" % (kind, ex.get("method"), ex.get("path"), status))
            else:
                self.stat("probe_error_request_refused")

    # ---------------- the director
    async def director(self):
        from tornado.ioloop import IOLoop
        try:
            await self._director()
        except BaseException as e:     # a harness bug must surface, not leave the loop idle forever
            import traceback
            self.director_error = traceback.format_exc()
            self.forced_stop = True
            IOLoop.current().stop()

    async def _director(self):
        from tornado.ioloop import IOLoop
        tasks = [self.loop.create_task(self.client(ci, spec), name="client-%d" % ci) for ci, spec in enumerate(self.trace["clients"])]
        await asyncio.gather(*tasks)
        # W6: bounded liveness once faults have stopped
        if self.main_returned is None:
            from simkit.simnet import Link, SimStream, read_response
            link = Link(self.loop, self.log, "probe")
            self.server.handle_stream(SimStream(link), ("127.0.0.1", 49999))
            it0, t0 = self.loop.iterations, self.loop.time()
            link.deliver(("GET %s/ HTTP/1.1\r\nHost: x\r\n\r\n" % self.prefix).encode())
            resp = await read_response(link, 10.0)
            self.probe_result = (resp.status if resp else None, self.loop.iterations - it0, self.loop.time() - t0)
        self.forced_stop = True
        IOLoop.current().stop()

    def run(self):
        import tornado.netutil
        import tornado.tcpserver
        import webbrowser
        from simkit.simloop import SimLoop, Quiescent
        from simkit import simnet
        import nbdime.webapp.nbdimeserver as srvmod
        import logging
        logging.disable(logging.CRITICAL)
        self.setup()
        self.log.ev("start", world={k: v for k, v in self.trace["world"].items() if k != "files"}, swarm=self.trace["swarm"])
        self.loop = SimLoop()
        self.loop.exec_salt = int(str(self.trace.get("run_seed") or "0"), 16) % 97
        asyncio.set_event_loop(self.loop)
        simnet.install_writable_hook(self.loop, None)
        runner = self

        # Tornado's IOLoop.time() is time.time(): deadlines it computes (header/idle timeouts) would mix the real
        # clock into timer order.  Every deadline in the system must read the simulated clock.
        import tornado.ioloop
        tornado.ioloop.IOLoop.time = lambda ioloop: runner.loop.time()

        def fake_bind(*a, **kw):
            return [_FakeSocket()]
        tornado.netutil.bind_sockets = fake_bind
        tornado.tcpserver.bind_sockets = fake_bind
        orig_add = tornado.tcpserver.TCPServer.add_sockets

        def add_sockets(server, sockets):
            runner.server = server
            return orig_add(server, sockets)
        tornado.tcpserver.TCPServer.add_sockets = add_sockets

        def no_browser(*a, **kw):
            raise webbrowser.Error("no browser in the simulation")
        webbrowser.get = no_browser
        srvmod.requests = self.fake_requests()
        self.snap = _snapshot(self.snap_dirs)
        self.pending_store = None
        self.store_inflight = False
        self.inflight_close = []
        self.evaluated_close = set()
        self.close_delivered = []
        prog, main, argv = self.entry()
        sys.argv[0] = prog
        if self.trace["world"].get("cwd_elsewhere"):
            os.chdir(self.elsewhere)
            self.stat("sessions_cwd_elsewhere")
        self.loop.call_soon(lambda: self.loop.create_task(self.director(), name="director"))
        sink = io.StringIO()
        rc = None
        outcome = "returned"
        try:
            with contextlib.redirect_stdout(sink), contextlib.redirect_stderr(sink):
                rc = main(argv)
        except Quiescent:
            outcome = "quiescent"
        except SystemExit as e:
            outcome = "exit"
            rc = e.code
        self.main_returned = rc
        self.log.ev("end", outcome=outcome, rc=rc, forced=self.forced_stop, vtime=round(self.loop.time(), 3))
        sig = {"kind": "session", "mode": self.trace["world"]["mode"]}
        if getattr(self, "director_error", None):
            raise HarnessError("simulated clients failed: " + self.director_error[-1500:])
        if outcome != "returned":
            raise HarnessError("server entry point ended with %s (rc %r): %s" % (outcome, rc, sink.getvalue()[-500:]))
        # W5
        if not self.forced_stop:
            # the loop stopped in the very iteration that answered the closetool request: its client never got to
            # read the response, so read the bytes the server wrote from the link directly
            for ex, link in self.inflight_close:
                head = bytes(link.s2c[:200])
                if head.startswith(b"HTTP/1.1 100"):
                    head = head[head.find(b"\r\n\r\n") + 4:]
                if head.startswith((b"HTTP/1.1 200", b"HTTP/1.0 200")) and id(ex) not in self.evaluated_close:
                    self.close_ok.append(self.expected_exit_code(ex))
                    self.stat("status_200")
                    if not self.closable:
                        self.violate("W5", dict(sig, what="closed_nonclosable"), "closetool answered 200 on a session that was not started as closable")
            self.stat("probe_session_closed_remotely")
            if not self.closable:
                self.violate("W5", dict(sig, what="stopped_nonclosable"), "the server stopped although it was not started as closable")
            elif not self.close_ok and not self.close_delivered:
                self.violate("W5", dict(sig, what="stopped_without_close"), "the server stopped although no complete closetool request was ever delivered")
            elif self.close_ok and None not in self.close_ok and rc not in self.close_ok and \
                    all(self.expected_exit_code(e) is not None for e in self.close_delivered):
                self.violate("W5", dict(sig, what="exit_code"), "main returned %r but the accepted closetool request(s) submitted %r" % (rc, self.close_ok))
        else:
            if self.close_ok and self.closable:
                self.violate("W5", dict(sig, what="close_ignored"), "closetool was answered 200 on a closable session but the server kept running")
            if self.probe_result is not None:
                st, iters, secs = self.probe_result
                self.stat("probe_liveness_checked")
                if st is None or iters > 200 or secs > 10.0:
                    self.violate("W6", dict(sig, what="liveness"), "after all clients finished a fresh GET got status %r after %d iterations / %.1f virtual s" % (st, iters, secs))
        final = _snapshot(self.snap_dirs)
        changed = sorted(k for k in set(final) | set(self.snap) if final.get(k) != self.snap.get(k))
        outkey = ("work/" + self.output_name) if self.output_name else None
        if changed == [outkey] and self.store_inflight and self.pending_store is not None:
            # a store was answered in flight when the session ended (remote close): judge the file against that request
            ex = self.pending_store
            ok = False
            if ex["kind"] == "store_valid":
                want = self.ref({"op": "normalise", "nb": self.trace["upload_pool"][ex["nb"]]})
                try:
                    got = self.ref({"op": "normalise", "nb": json.loads((self.read_output() or b"").decode("utf8"))})
                except Exception:
                    got = None
                ok = "value" in want and got == want
            if not ok:
                self.violate("W4" if ex["kind"] == "store_malformed" else "W3", dict(sig, what="late_output_change"),
                             "the output file changed by a %s request that was in flight when the session ended, and does not hold the submitted notebook" % ex["kind"])
        elif changed:
            self.violate("W3", dict(sig, what="late_change"), "file system changed after the last exchange: %r" % changed)
        self.stat("virtual_seconds", int(self.loop.time()))
        self.stat("loop_iterations", self.loop.iterations)
        self.stat("mode_" + self.trace["world"]["mode"])
        self.stat("sessions_closable" if self.closable else "sessions_not_closable")
        if self.prefix:
            self.stat("sessions_nonroot_base_url")
        dl = self.delivery_log
        for i in range(len(dl)):
            self.distinct["interleaving"].add(core.sha(dl[i:i + 6])[:12])
        sample = {"mode": self.trace["world"]["mode"], "base_url": self.trace["world"]["base_url"], "closable": self.closable,
                  "clients": [[{"kind": e["kind"], "path": e.get("path"), "net": e.get("net"), "frag_style": e.get("frag_style")} for e in c["exchanges"][:6]]
                              for c in self.trace["clients"]],
                  "virtual_seconds": round(self.loop.time(), 2), "loop_iterations": self.loop.iterations}
        return {"violations": self.violations, "digest": self.log.digest(), "events": self.log.n, "stats": self.stats,
                "distinct": {k: sorted(v) for k, v in self.distinct.items()}, "sample": sample}


def execute(trace, scratch):
    return Runner(trace, scratch).run()


# ------------------------------------------------------------------ minimisation

def shrink(trace, fails, budget):
    # drop whole clients, then exchanges
    clients = core.ddmin(trace["clients"], lambda sub: bool(sub) and fails(dict(trace, clients=sub)), budget)
    trace = dict(trace, clients=clients or trace["clients"])
    for ci in range(len(trace["clients"])):
        exs = core.ddmin(trace["clients"][ci]["exchanges"],
                         lambda sub, ci=ci: fails(dict(trace, clients=trace["clients"][:ci] + [{"exchanges": sub}] + trace["clients"][ci + 1:])), budget)
        trace = dict(trace, clients=trace["clients"][:ci] + [{"exchanges": exs}] + trace["clients"][ci + 1:])
    trace = dict(trace, clients=[c for c in trace["clients"] if c["exchanges"]] or trace["clients"][:1])
    for ci, c in enumerate(trace["clients"]):
        for xi, ex in enumerate(c["exchanges"]):
            for key, val in (("net", None), ("disk", None), ("frag_style", "whole"), ("gap", 0.0), ("start", 0.0), ("reuse", False)):
                if ex.get(key) != val and budget.left():
                    ex2 = dict(trace["clients"][ci]["exchanges"][xi], **{key: val})
                    exs = list(trace["clients"][ci]["exchanges"])
                    exs[xi] = ex2
                    cand = dict(trace, clients=trace["clients"][:ci] + [{"exchanges": exs}] + trace["clients"][ci + 1:])
                    budget.spend()
                    if fails(cand):
                        trace = cand
    sw = dict(trace["swarm"])
    if sw.get("backpressure") is not None and budget.left():
        cand = dict(trace, swarm=dict(sw, backpressure=None))
        budget.spend()
        if fails(cand):
            trace = cand
    w = trace["world"]
    for key, val in (("base_url", "/"), ("persist", False), ("wd_flag", False), ("peer_latency", 0.0)):
        if w.get(key) != val and budget.left():
            cand = dict(trace, world=dict(trace["world"], **{key: val}))
            budget.spend()
            if fails(cand):
                trace = cand
    return trace


# ------------------------------------------------------------------ evidence

def coverage(agg):
    c = agg.counters
    cov = {
        "distinct_nontrivial": len(agg.distinct.get("interleaving", ())),
        "exchanges": c.get("exchanges", 0),
        "connections": c.get("connections", 0),
        "reference_forks": c.get("ref_forks", 0),
        "virtual_seconds_simulated": c.get("virtual_seconds", 0),
        "loop_iterations": c.get("loop_iterations", 0),
        "distinct_endpoint_outcomes": len(agg.distinct.get("endpoint_outcome", ())),
        "requests_by_kind": {k[len("kind_"):]: v for k, v in c.items() if k.startswith("kind_")},
        "responses_by_status": {k[len("status_"):]: v for k, v in c.items() if k.startswith("status_")},
        "sessions_by_mode": {k[len("mode_"):]: v for k, v in c.items() if k.startswith("mode_")},
        "faults_fired": {k[len("fault_fired_"):]: v for k, v in c.items() if k.startswith("fault_fired_")},
        "probes": {k[len("probe_"):]: v for k, v in c.items() if k.startswith("probe_")},
        "real_vs_stub": {"real": ["nbdimeserver.main / nbdiffweb.main / nbdifftool.main / nbmergeweb.main / nbmergetool.main -> main_server -> init_app -> make_app",
                                  "all nbdime API and page handlers", "tornado HTTPServer, HTTP1ServerConnection, HTTP/1.1 parser, routing, RequestHandler life-cycle, IOLoop facade, timeouts",
                                  "nbformat read/validate/write"],
                         "simulated": ["asyncio event loop and clock (virtual time)", "listening socket and connections (in-memory BaseIOStream pairs handed to HTTPServer.handle_stream)",
                                       "HTTP clients (raw bytes, fragments, delays, aborts, resets, stalls, pipelining, wrong Content-Length)",
                                       "remote HTTP peer (requests.get)", "web browser", "disk faults on the server's open() (vanished input, ENOSPC / EACCES on the store write)"],
                         "stub": ["jupyter_server (JupyterHandler/APIHandler/url_path_join/log_request)", "jinja2 (page templates are not rendered)"]},
    }
    rule = ("Each run = one server session started through a real entry point (mode x closable x base URL) with 1-4 simulated clients issuing valid, malformed, "
            "aborted and adversarial requests; bytes are delivered in seeded fragments with virtual delays, connections interleave. distinct_nontrivial counts "
            "distinct windows of length <= 6 in the delivery log (client id, deliver/response) — the measure of distinct interleavings.")
    assumptions = [
        "call_soon order is FIFO (asyncio's promise); only readiness order, timing and chunking vary",
        "at most one /api/store in flight at a time (only client 0 stores)",
        "file equality after nbformat's own write/read normalisation",
        "reference answers come from forks of a pristine interpreter reading the same sandbox files",
        "error status means >= 400 or a closed connection; the statement does not prescribe which code",
        "a quarter of the non-plain sessions start the server with diff options (-O, -s, -M ...); the reference process applies the same options, and the base+diff round trip is only demanded without them",
    ]
    return cov, rule, assumptions


def self_check(agg, cfg):
    need = ["probe_diff_agreed", "probe_merge_agreed", "probe_store_written_and_verified", "probe_store_refused_without_output",
            "probe_close_refused_nonclosable", "probe_session_closed_remotely", "probe_liveness_checked", "probe_error_request_refused",
            "fault_fired_net_close_mid_request", "fault_fired_net_stall", "sessions_nonroot_base_url"]
    return [k for k in need if not agg.counters.get(k)]
