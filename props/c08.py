"""C08 — merge command and git driver: exit status, output file, behaviour on failure.

System under test: the real nbdime.nbmergeapp.main and nbdime.vcs.git.mergedriver.main, run
in-process inside a forked 'simulated process' whose file I/O, temp files and helper spawns go
through SimFS.  Per scenario: one fault-free reference pass (discovers the step boundaries =
seam events), then one pass per single fault at every discovered boundary (fault enumeration)."""
import contextlib
import copy
import io
import json
import os
import random
import subprocess
import sys

from simkit import core, nbgen
from simkit.core import EventLog, Violation, HarnessError
from simkit.simfs import SimFS, SimKill, LEGAL
from simkit.world import World

PROP = "C08"
LEVEL = "fault_enumeration"
TIERS = {
    "quick": dict(runs=400, wall_cap=240, timeout=300, fault_budget=14, p_e2e=0.04, e2e_fault_budget=6, pair_budget=2, shrink_seconds=120, shrink_steps=120),
    "thorough": dict(runs=2500, wall_cap=2700, timeout=900, fault_budget=400, p_e2e=0.1, e2e_fault_budget=40, pair_budget=25, shrink_seconds=400, shrink_steps=400),
}

SENTINEL = "SENTINEL: previous content of the output location\n"
MERGE_STRATS = ["inline", "use-base", "use-local", "use-remote"]
OUT_STRATS = MERGE_STRATS + ["remove", "clear-all"]


def prepare():
    import nbformat  # noqa
    import nbdime.nbmergeapp  # noqa
    import nbdime.vcs.git.mergedriver  # noqa
    import nbdime.prettyprint  # noqa


def size(trace):
    sc = trace["scenario"]
    return sum(len(nb.get("cells", [])) + 1 for nb in sc["triple"].values() if isinstance(nb, dict)) + len(sc.get("flags", []))


# ------------------------------------------------------------------ generation

def generate(rng, index, cfg):
    if rng.random() < cfg.get("p_e2e", 0.05):
        base, local, remote = nbgen.triple(rng, max_cells=rng.choice([1, 2]), overlap=rng.choice([0.3, 1.0]), minor=rng.choice([4, 5]),
                                           kinds=rng.choice([None, ["src"] * 5 + ["out", "md", "ins"]]))
        flags = []
        if rng.random() < 0.5:
            flags += ["--merge-strategy", rng.choice(MERGE_STRATS)]
        sc = {"entry": "e2e", "shape": "plain", "triple": {"base": base, "local": local, "remote": remote}, "flags": flags,
              "out": "inplace", "decisions": False, "helpers": ["git", "diff3", "diff"], "line_faults": 0,
              # the conflict-marker-size attribute reaches the driver as %L
              "marker": rng.choice(["7", "7", "10", "32", "3"])}
        return {"scenario": sc, "fault_budget": cfg.get("e2e_fault_budget", 6), "explicit_faults": None}
    entry = rng.choice(["nbmerge", "nbmerge", "driver"])
    base, local, remote = nbgen.triple(rng, max_cells=rng.choice([1, 2, 3]), overlap=rng.choice([0.3, 0.7, 1.0]),
                                       minor=rng.choice([4, 5]), kinds=rng.choice([None, ["src"] * 5 + ["out", "md", "ins"], ["src"], ["samelen"], ["samelen", "src"]]))
    many = rng.random() < cfg.get("p_many_conflicts", 0.012)
    if many:
        # a large notebook in which every cell was edited on both sides: 256 separate conflicts (an exit status has 8 bits)
        def wide(v):
            return {"cells": [{"cell_type": "code", "id": "c%04d" % i, "metadata": {}, "execution_count": None, "outputs": [],
                               "source": "x%d = %s\n" % (i, v)} for i in range(256)], "metadata": {}, "nbformat": 4, "nbformat_minor": 5}
        base, local, remote = wide(0), wide(1), wide(2)
    triple = {"base": base, "local": local, "remote": remote}
    shape = rng.choice(["plain"] * 7 + ["base_null", "base_empty", "local_null", "remote_null", "both_null", "missing", "local_empty",
                                        "remote_empty", "base_garbage", "remote_garbage", "local_bad_utf8", "remote_dir", "base_v3"])
    if entry == "driver" and shape in ("base_null", "local_null", "remote_null", "both_null", "missing", "remote_dir"):
        shape = rng.choice(["plain", "base_empty"])      # git always hands the driver three temp files
    if shape == "base_null":
        triple["base"] = "NULL"
    elif shape == "base_empty":
        triple["base"] = "EMPTY"
    elif shape == "local_null":
        triple["local"] = "NULL"
    elif shape == "remote_null":
        triple["remote"] = "NULL"
    elif shape == "both_null":
        triple["local"] = triple["remote"] = "NULL"
    elif shape == "missing":
        triple[rng.choice(["base", "local", "remote"])] = "MISSING"
    elif shape == "local_empty":
        triple["local"] = "EMPTY"
    elif shape == "remote_empty":
        triple["remote"] = "EMPTY"
    elif shape == "base_garbage":
        triple["base"] = "GARBAGE"
    elif shape == "remote_garbage":
        triple["remote"] = "GARBAGE"
    elif shape == "local_bad_utf8":
        triple["local"] = "BADUTF8"
    elif shape == "remote_dir":
        triple["remote"] = "DIR"
    elif shape == "base_v3":
        triple["base"] = "V3"
    flags = []
    if rng.random() < 0.6:
        flags += ["--merge-strategy", rng.choice(MERGE_STRATS)]
    if rng.random() < 0.25:
        flags += ["--input-strategy", rng.choice(MERGE_STRATS)]
    if rng.random() < 0.25:
        flags += ["--output-strategy", rng.choice(OUT_STRATS)]
    if rng.random() < 0.15:
        flags += ["--no-ignore-transients"]
    if rng.random() < 0.22:
        flags += ["--log-level", rng.choice(["DEBUG", "DEBUG", "ERROR"])]
    out = "inplace" if entry == "driver" else rng.choice(["file_absent", "file_existing", "file_existing", "stdout", "stdout"])
    decisions = entry == "nbmerge" and rng.random() < 0.15
    sc = {"entry": entry, "shape": shape, "triple": triple, "flags": flags, "out": out, "decisions": decisions,
          "helpers": rng.choice([["git", "diff3", "diff"], ["git", "diff3", "diff"], ["diff3", "diff"], ["git"], []]),
          "line_faults": rng.randint(0, 3), "pathname_exists": rng.random() < 0.8,
          # %L: git's conflict marker size (the conflict-marker-size attribute, +2 per level of a recursive merge)
          "marker": rng.choice(["7", "7", "7", "9", "10", "32", "3"])}
    if entry == "nbmerge" and shape == "plain" and not many and rng.random() < cfg.get("p_base_fifo", 0.05):
        sc["base_fifo"] = True
    if many:
        sc["shape"], sc["many_conflicts"] = "plain", True
        sc["triple"] = {"base": base, "local": local, "remote": remote}
        sc["flags"], sc["decisions"] = [], False
        sc["line_faults"] = 0
        return {"scenario": sc, "fault_budget": 2, "pair_budget": 0, "explicit_faults": None}
    return {"scenario": sc, "fault_budget": cfg["fault_budget"], "pair_budget": cfg.get("pair_budget", 0), "explicit_faults": None}


# ------------------------------------------------------------------ one pass of the simulated process

def _canon_nb(obj):
    return json.loads(json.dumps(obj))


def _norm_written(nbjson):
    """The normalisation nbformat applies on write+read, so file content and captured result compare."""
    import nbformat
    return _canon_nb(nbformat.reads(nbformat.writes(nbformat.from_dict(copy.deepcopy(nbjson))), as_version=4))


def _collect_ids(nbs):
    ids = set()
    for nb in nbs:
        if isinstance(nb, dict):
            for c in nb.get("cells") or []:
                if isinstance(c, dict) and isinstance(c.get("id"), str):
                    ids.add(c["id"])
    return ids


def _mask_ids(obj, known):
    if isinstance(obj, dict):
        return {k: ("<fresh>" if (k == "id" and isinstance(v, str) and "cell_type" in obj and v not in known) else _mask_ids(v, known))
                for k, v in obj.items()}
    if isinstance(obj, list):
        return [_mask_ids(v, known) for v in obj]
    return obj


def one_pass(sc, plan, line_total=None, count_lines=False, scratch=None):
    """Runs in its own fork.  Returns everything the oracles need, JSON-serialisable."""
    import nbformat
    import nbdime.nbmergeapp as app
    import nbdime.prettyprint as pp
    from nbdime.vcs.git import mergedriver
    from simkit.tracefault import TraceFault, LineCounter
    w = World(scratch, helpers=tuple(sc["helpers"]))
    w.activate()
    log = EventLog(keep=False)
    log.add_subst(w.root, "$S")
    paths = {}
    fifo_writer, fifo_src = [], {}
    for name in ("base", "local", "remote"):
        v = sc["triple"][name]
        p = os.path.join(w.work, name + ".ipynb")
        if v == "NULL":
            p = "/dev/null"
        elif v == "EMPTY":
            open(p, "w").close()
        elif v == "MISSING":
            pass
        elif v == "GARBAGE":
            with open(p, "w") as f:
                f.write("<<<<<<< this is not a notebook\n{\"cells\": [\n")
        elif v == "BADUTF8":
            with open(p, "wb") as f:
                f.write(b'{"cells": [], "metadata": {"k": "\xff\xfe"}, "nbformat": 4, "nbformat_minor": 4}')
        elif v == "DIR":
            os.makedirs(p)
        elif v == "V3":
            with open(p, "w") as f:
                json.dump({"nbformat": 3, "nbformat_minor": 0, "metadata": {"name": "old"}, "worksheets": [{"cells": [
                    {"cell_type": "code", "language": "python", "metadata": {}, "collapsed": False, "input": "x = 1", "outputs": [], "prompt_number": 1}],
                    "metadata": {}}]}, f)
        else:
            target = p
            if name == "base" and sc.get("base_fifo"):
                # the base arrives through a pipe (`nbmerge <(git show :1:nb.ipynb) local remote`): a named pipe fed by a
                # real writer process, which blocks until the program under test opens it
                target = os.path.join(w.work, "base.src.ipynb")
            with open(target, "w", encoding="utf8") as f:
                json.dump(v, f, indent=1)
                f.write("\n")
            if target != p:
                os.mkfifo(p)
                from simkit.world import _REAL_POPEN, REAL
                fifo_writer.append(_REAL_POPEN([REAL["sh"], "-c", 'exec "$0" "$1" > "$2"', REAL["cat"], target, p],
                                               stdin=subprocess.DEVNULL, stdout=subprocess.DEVNULL, stderr=subprocess.DEVNULL))
                fifo_src["base"] = target
        paths[name] = p
    # git hands a merge driver three temporaries written in the same instant: give the inputs one modification time
    for q in paths.values():
        if q != "/dev/null" and os.path.isfile(q):
            os.utime(q, ns=(1700000000 * 10**9, 1700000000 * 10**9))
    out_mode = sc["out"]
    out_path = None
    if out_mode == "inplace":
        out_path = paths["local"]
    elif out_mode in ("file_absent", "file_existing"):
        out_path = os.path.join(w.work, "merged.ipynb")
        if out_mode == "file_existing":
            with open(out_path, "w") as f:
                f.write(SENTINEL)
    stdout_path = os.path.join(w.root, "stdout.txt")
    if sc["entry"] == "driver" and sc.get("pathname_exists", True):
        # %P: the path of the file in the working tree; during a real merge it holds "our" version
        with open(os.path.join(w.work, "notebook.ipynb"), "w", encoding="utf8") as f:
            json.dump(sc["triple"]["local"] if isinstance(sc["triple"]["local"], dict) else {}, f, indent=1)

    def read_bytes(p):
        try:
            with open(p, "rb") as f:
                return f.read().decode("utf8", "replace")
        except OSError:
            return None
    before = read_bytes(out_path) if out_path else None

    def independent_inputs():
        """What the three inputs are, read by the harness itself: the null file and an empty *base* stand for an
        empty notebook (the placeholders the property allows); anything else must be the notebook stored in the file."""
        out, objs = [], []
        for name in ("base", "local", "remote"):
            v = sc["triple"][name]
            if v == "NULL" or (v == "EMPTY" and name == "base"):
                objs.append(nbformat.v4.new_notebook())
                out.append(_canon_nb(objs[-1]))
                continue
            try:
                objs.append(nbformat.read(fifo_src.get(name, paths[name]), as_version=4))     # (kept as read: conversion of old formats
                out.append(_canon_nb(objs[-1]))                          #  yields other Python types than a JSON round trip)
            except Exception as e:
                objs.append(None)
                out.append({"__unreadable__": type(e).__name__})
        return out, objs
    expected_inputs, expected_objs = independent_inputs()

    def classify(p):
        for name, q in paths.items():
            if q != "/dev/null" and os.path.realpath(q) == p:
                return name
        if out_path and os.path.realpath(out_path) == p:
            return "out"
        if p == os.path.realpath(stdout_path):
            return "stdout"
        if p.startswith(os.path.realpath(w.tmp) + os.sep):
            return "tmp:" + os.path.basename(p)
        if os.path.basename(p) == "nbdime_config.json":
            return "cfg"
        return "misc"

    fs = SimFS(log, w.root, classify, plan)
    captured = {}
    line_fault = next((f for f in plan or [] if f["at"][0] == "line"), None)
    counter = {"lines": None}
    orig_merge = app.merge_notebooks

    def wrapped_merge(b, l, r, args=None):
        captured["inputs"] = [_canon_nb(b), _canon_nb(l), _canon_nb(r)]
        fs.mark("merge_called")
        tracer = None
        if line_fault is not None and line_total:
            excs = {"MemoryError": MemoryError, "RecursionError": RecursionError, "KeyboardInterrupt": KeyboardInterrupt}
            at = 1 + int(line_fault["at"][1] * line_total)
            if line_fault["kind"] == "kill":
                def boom():
                    fs.dead = True
                    return SimKill()
                tracer = TraceFault(core.REPO, at, boom)
            else:
                tracer = TraceFault(core.REPO, at, excs[line_fault["kind"]])
        elif count_lines:
            tracer = LineCounter(core.REPO)
        try:
            if tracer is not None:
                with tracer:
                    merged, decisions = orig_merge(b, l, r, args)
            else:
                merged, decisions = orig_merge(b, l, r, args)
        finally:
            if tracer is not None:
                counter["lines"] = tracer.count
                if getattr(tracer, "fired", False):
                    fs.fired.append((("line", line_fault["at"][1], 0), line_fault["kind"]))
                    fs.fired_phase = "merge_called"
                    # (the exact line is not logged: the number of lines nbdime executes varies with PYTHONHASHSEED)
                    log.ev("fault", at=["line", line_fault["at"][1]], fault=line_fault["kind"])
        captured["merged"] = _canon_nb(merged)
        captured["decisions"] = _canon_nb(decisions)
        fs.mark("merge_returned")
        return merged, decisions

    argv = list(sc["flags"])
    if sc["entry"] == "nbmerge":
        argv += [paths["base"], paths["local"], paths["remote"]]
        if out_path:
            argv += ["--out", out_path]
        if sc["decisions"]:
            argv += ["--decisions"]
        main = app.main
        sys.argv[0] = "nbmerge"
    else:
        argv = ["merge"] + argv + [paths["base"], paths["local"], paths["remote"], sc.get("marker", "7"), "notebook.ipynb"]
        main = mergedriver.main
        sys.argv[0] = "git-nbmergedriver"

    real_stdout, real_stderr = sys.stdout, sys.stderr
    sink = io.StringIO()
    status = None
    normal_return = False
    exc_name = None
    app.merge_notebooks = wrapped_merge
    saved_pp_popen = pp.Popen
    fs.install()
    pp.Popen = fs.popen
    simout = None
    try:
        try:
            simout = fs.open(stdout_path, "w", encoding="utf8")
            sys.stdout = simout
            # nbdime.prettyprint binds sys.stdout when it is imported (default argument and DefaultConfig); in a real
            # process that is the very stream the merged notebook is printed to
            pp.DefaultConfig.out = simout
            d = pp.PrettyPrintConfig.__init__.__defaults__
            if d and hasattr(d[0], "write"):
                pp.PrettyPrintConfig.__init__.__defaults__ = (simout,) + tuple(d[1:])
            sys.stderr = sink
            rc = main(argv)
            normal_return = True
            # the console script is `sys.exit(main())`: the parent process sees the low eight bits of an integer
            status = (rc & 0xFF) if isinstance(rc, int) else (0 if rc is None else 1)
        except SystemExit as e:
            status = (e.code & 0xFF) if isinstance(e.code, int) else (0 if e.code is None else 1)
            exc_name = "SystemExit"
        except KeyboardInterrupt:
            status = 130
            exc_name = "KeyboardInterrupt"
        except SimKill:
            status = "killed"
            exc_name = "SimKill"
        except BaseException as e:   # uncaught exception -> traceback, exit status 1
            status = 1
            exc_name = type(e).__name__
        if fs.dead:
            status = "killed"
        if status != "killed" and simout is not None:
            # interpreter shutdown flushes stdout; if that fails the exit status is 120
            try:
                simout.flush()
                simout.close()
            except SimKill:
                status = "killed"
            except BaseException:
                status = 120
                normal_return = False
    finally:
        sys.stdout, sys.stderr = real_stdout, real_stderr
        pp.Popen = saved_pp_popen
        fs.uninstall()
        app.merge_notebooks = orig_merge
        for pr in fifo_writer:
            # (still blocked if the program never opened the pipe)
            if pr.poll() is None:
                pr.kill()
            pr.wait()
    independent = None
    if not plan and not count_lines and not any(isinstance(x, dict) and "__unreadable__" in x for x in expected_inputs):
        # what the library merge returns for these three notebooks and these strategy flags, computed by the harness
        try:
            import argparse
            from nbdime.merging.notebooks import merge_notebooks as lib_merge
            fl = list(sc["flags"])

            def opt(name, default=None):
                return fl[fl.index(name) + 1] if name in fl else default
            ns = argparse.Namespace(merge_strategy=opt("--merge-strategy", "inline"), input_strategy=opt("--input-strategy"),
                                    output_strategy=opt("--output-strategy"), ignore_transients="--no-ignore-transients" not in fl,
                                    log_level="INFO")
            ins = [copy.deepcopy(x) for x in expected_objs]
            m, d = lib_merge(ins[0], ins[1], ins[2], ns)
            independent = {"merged": _canon_nb(m), "conflict": any(x.conflict for x in d)}
        except Exception as e:
            independent = {"error": type(e).__name__}
    log.ev("exit", status=status, normal=normal_return, exc=exc_name)
    after = read_bytes(out_path) if out_path else None
    stdout_text = read_bytes(stdout_path)
    return {
        "status": status, "normal_return": normal_return, "exc": exc_name,
        "events": [list(e) for e in fs.events], "fired": [[list(k), f] for k, f in fs.fired], "fired_phase": fs.fired_phase,
        "phase_end": fs.phase, "captured": captured, "expected_inputs": expected_inputs, "independent": independent, "before": before, "after": after, "stdout": stdout_text,
        "lines": counter["lines"], "digest": log.digest(), "n_events": log.n, "stderr": sink.getvalue()[-600:],
    }


# ------------------------------------------------------------------ oracles

def _has_conflict(decisions):
    return any(d.get("conflict") for d in decisions or [])


def _output_matches(sc, res):
    """Does the designated output hold the complete result captured in this very pass?  -> (ok, why)"""
    import nbformat
    cap = res["captured"]
    known = _collect_ids(cap.get("inputs") or [])
    if sc["decisions"]:
        if sc["out"] in ("file_absent", "file_existing"):
            try:
                got = json.loads(res["after"])
            except Exception as e:
                return False, "decisions file is not JSON: %s" % e
            if _mask_ids(got, known) != _mask_ids(cap["decisions"], known):
                return False, "decisions file differs from the decisions the library returned"
        return True, ""
    text = res["stdout"] if sc["out"] == "stdout" else res["after"]
    if text is None:
        return False, "output location does not exist"
    try:
        got = _canon_nb(nbformat.reads(text, as_version=4))
    except Exception as e:
        return False, "output is not a well-formed notebook JSON document: %s: %s" % (type(e).__name__, str(e)[:100])
    try:
        want = _norm_written(cap["merged"])
    except Exception as e:
        return False, "the library result cannot be serialised by nbformat (%s) yet the command produced an output" % type(e).__name__
    if _mask_ids(got, known) != _mask_ids(want, known):
        return False, "output differs from the merged notebook the library returned"
    return True, ""


def check_reference(sc, ref, violate):
    sig = {"entry": sc["entry"], "out": sc["out"], "shape": sc["shape"], "fault": None}
    st = ref["status"]
    if sc["shape"] == "missing":
        if st == 0:
            violate("R", dict(sig, what="missing_input_success"), "an input file does not exist but the exit status is 0")
        if ref["after"] != ref["before"]:
            violate("R", dict(sig, what="missing_input_output_touched"), "an input file does not exist but the output location changed")
        return "missing"
    if sc["shape"] == "both_null":
        if st != 0:
            violate("R", dict(sig, what="agreed_deletion_status"), "agreed deletion must exit 0, got %r (%s) %s" % (st, ref["exc"], ref["stderr"][-300:]))
        elif sc["out"] in ("file_absent", "file_existing") and not sc["decisions"] and ref["after"] is not None:
            violate("R", dict(sig, what="agreed_deletion_file_left"), "agreed deletion left the output file in place")
        return "agreed_deletion"
    ind = ref.get("independent")
    if "merged" not in ref["captured"]:
        if ind and "merged" in ind and ref["normal_return"] and st in (0, 1) and not sc["decisions"]:
            # The command never went through nbmergeapp.merge_notebooks (refactored? a shortcut?).  Judge it against the
            # library result computed by the harness instead of insisting on the seam.
            fake = dict(ref, captured={"merged": ind["merged"], "inputs": ref.get("expected_inputs")})
            ok, why = _output_matches(sc, fake)
            if (st == 0) != (not ind["conflict"]):
                violate("R", dict(sig, what="status_vs_conflicts"), "exit status %r but the library merge %s" % (st, "leaves conflicts" if ind["conflict"] else "is clean"))
            elif not ok:
                violate("R", dict(sig, what="output_not_library_result"), "the command bypassed merge_notebooks and " + why.replace("returned", "returns"))
            return "merge_not_observed"
        # the run failed before or inside the merge on its own (e.g. an empty local file): must not be success
        if st == 0:
            violate("R", dict(sig, what="success_without_merge"), "exit status 0 although the library merge never returned")
        if ref["after"] != ref["before"]:
            violate("R", dict(sig, what="output_touched_without_merge"), "output changed although the library merge never returned")
        return "input_determined_failure"
    if ind and "merged" in ind:
        known0 = _collect_ids([v for v in sc["triple"].values() if isinstance(v, dict)])   # ids drawn while converting are masked
        if _mask_ids(ind["merged"], known0) != _mask_ids(ref["captured"]["merged"], known0):
            violate("R", dict(sig, what="library_result"), "the notebook the command merged differs from what the library merge returns for the same files and flags")
    # R2: what was merged is what the files hold (or the allowed placeholders) - never a silent substitute
    exp = ref.get("expected_inputs") or []
    for name, want, got in zip(("base", "local", "remote"), exp, ref["captured"].get("inputs") or []):
        if isinstance(want, dict) and "__unreadable__" in want:
            violate("R", dict(sig, what="unreadable_input_merged"),
                    "%s cannot be read as a notebook (%s) but the command merged something in its place" % (name, want["__unreadable__"]))
            break
        if _mask_ids(want, set()) != _mask_ids(got, set()):
            violate("R", dict(sig, what="input_substituted"), "the notebook merged as %s is not the notebook stored in the %s file" % (name, name))
            break
    conflicts = _has_conflict(ref["captured"]["decisions"])
    if not ref["normal_return"]:
        # The command crashed on its own after the library merge returned (e.g. nbformat refuses to serialise the
        # merged notebook).  That is an input-determined failure of a step: it must not be reported as success.
        if st == 0:
            violate("R", dict(sig, what="crash_reported_as_success"), "fault-free run raised %s but exit status is 0" % ref["exc"])
        return "crash_after_merge"
    if (st == 0) != (not conflicts):
        violate("R", dict(sig, what="status_vs_conflicts"), "exit status %r but conflicted decisions remain: %s" % (st, conflicts))
    ok, why = _output_matches(sc, ref)
    if not ok:
        violate("R", dict(sig, what="output"), "fault-free run: " + why)
    return "conflicted" if conflicts else "clean"


def check_faulted(sc, ref, res, fault, violate):
    ev = fault["at"]
    sig = {"entry": sc["entry"], "out": sc["out"], "shape": sc["shape"], "fault": fault["kind"],
           "event": [ev[0], ev[1] if ev[0] != "line" else "merge"]}
    st = res["status"]
    cap = res["captured"]
    fired = bool(res["fired"])
    if not fired:
        return "not_fired"
    verified_complete = False
    scen_ids = _collect_ids([v for v in sc["triple"].values() if isinstance(v, dict)])

    def same_inputs(a, b):
        # (reading an old-format notebook converts it and draws random cell ids: ids absent from the files are masked)
        return _mask_ids(a, scen_ids) == _mask_ids(b, scen_ids)
    untouched = res["after"] == res["before"] and (sc["out"] != "stdout" or not (res["stdout"] or ""))
    special = sc["shape"] in ("missing", "both_null") or "merged" not in ref["captured"]
    if st == 0:
        if sc["shape"] == "both_null":
            if sc["out"] in ("file_absent", "file_existing") and not sc["decisions"] and res["after"] is not None:
                violate("F1", dict(sig, what="agreed_deletion_file_left"), "status 0 after fault %r but the output file still exists" % (fault,))
            return "tolerated"
        if special:
            violate("F1", dict(sig, what="success_without_merge"),
                    "status 0 after fault %r although this scenario cannot produce a merge result" % (fault,))
            return "violation"
        if "merged" not in cap:
            violate("F1", dict(sig, what="success_without_merge"), "status 0 after fault %r but the library merge never returned" % (fault,))
            return "violation"
        if "inputs" in ref["captured"] and not same_inputs(cap["inputs"], ref["captured"]["inputs"]):
            violate("F1", dict(sig, what="inputs_differ"), "status 0 after fault %r but the notebooks handed to the merge differ from the files on disk" % (fault,))
            return "violation"
        if _has_conflict(cap["decisions"]):
            violate("F1", dict(sig, what="conflict_but_success"), "status 0 after fault %r with conflicted decisions" % (fault,))
            return "violation"
        ok, why = _output_matches(sc, res)
        if not ok:
            violate("F1", dict(sig, what="output"), "status 0 after fault %r but %s" % (fault, why))
            return "violation"
        if res["fired_phase"] == "merge_called" and "merged" in ref["captured"]:
            # The fault hit a step *inside* the merge (helper process, temp file, allocation).  Success may only be
            # reported if the step's failure was harmless, i.e. the result is the fault-free result.
            known = _collect_ids(cap.get("inputs") or [])
            if _has_conflict(ref["captured"]["decisions"]) or \
                    _mask_ids(cap["merged"], known) != _mask_ids(ref["captured"]["merged"], known):
                violate("F1", dict(sig, what="failed_step_inside_merge_reported_as_success"),
                        "status 0 after fault %r inside the merge, but the result differs from the fault-free result "
                        "(fault-free run: %s)" % (fault, "conflicts remain" if _has_conflict(ref["captured"]["decisions"]) else "other merged notebook"))
                return "violation"
        verified_complete = True
    elif st == 1 and res["normal_return"] and "merged" in cap and _has_conflict(cap["decisions"]):
        if "inputs" in ref["captured"] and not same_inputs(cap["inputs"], ref["captured"]["inputs"]):
            violate("F2", dict(sig, what="inputs_differ"), "finished with conflicts after fault %r but merged other inputs than the files on disk" % (fault,))
            return "violation"
        ok, why = _output_matches(sc, res)
        if not ok:
            violate("F2", dict(sig, what="output"), "finished (status 1, conflicts) after fault %r but %s" % (fault, why))
            return "violation"
        verified_complete = True
    # F4: a normal return with 0/1 never leaves a torn output
    if res["normal_return"] and st in (0, 1) and not verified_complete and not special and not sc["decisions"] and not untouched:
        ok, why = _output_matches(sc, res) if "merged" in cap else (False, "output changed without a merge result")
        if not ok:
            violate("F4", dict(sig, what="torn"), "returned normally (status %r) after fault %r but %s" % (st, fault, why))
            return "violation"
    # F3: a failure before the result is written leaves the output location untouched.  "Before the result is
    # written" = the fault fired before the merge result existed, or at a step boundary that precedes the first
    # completed open-for-writing of the output location (for stdout: the first write to it).
    out_class = "local" if sc["out"] == "inplace" else ("stdout" if sc["out"] == "stdout" else "out")
    evs = [tuple(e) for e in res["events"]]
    before_output_begins = bool(res["fired"])
    for fk, fkind in res["fired"]:       # every fired fault (double-fault plans) must precede the output
        fk = tuple(fk)
        if fk[0] == "line":
            continue
        if fk not in evs:
            before_output_begins = False
            break
        idx = evs.index(fk)
        started = any(e[0] in (("write", "rawwrite") if out_class == "stdout" else ("open_w", "rename")) and e[1] == out_class
                      for e in evs[:idx])
        torn_here = fk[0] in ("write", "rawwrite") and fk[1] == out_class and fkind in ("torn", "short")
        if started or torn_here:
            before_output_begins = False
            break
    before_result = (res["fired_phase"] in ("start", "merge_called") and "merged" not in cap) or before_output_begins
    if before_result and not verified_complete and sc["shape"] != "both_null" and not untouched:
        violate("F3", dict(sig, what="touched"),
                "fault %r fired before the merge result existed, status %r, but the output location changed: %r -> %r" % (
                    fault, st, (res["before"] or "")[:80], (res["after"] or res["stdout"] or "")[:80]))
        return "violation"
    return "complete" if verified_complete else ("failed_clean" if untouched else "failed_partial_after_result")


# ------------------------------------------------------------------ a run = one scenario with all its passes

def _enumerate_faults(ref_events, sc, rng, budget, line_total):
    seen = set()
    faults = []
    for e in ref_events:
        key = tuple(e)
        if key in seen or key == ("open_w", "stdout", 0):   # the harness' own open of the stdout stand-in
            continue
        seen.add(key)
        for kind in LEGAL.get(e[0], []):
            faults.append({"at": list(e), "kind": kind})
    for _ in range(sc.get("line_faults", 0) if line_total else 0):
        faults.append({"at": ["line", round(rng.random(), 4)], "kind": rng.choice(["MemoryError", "KeyboardInterrupt", "RecursionError", "kill"])})
    total = len(faults)
    if total > budget:
        # stratified: first one fault per distinct (event kind, path class), then fill up at random
        rng.shuffle(faults)
        # rare and valuable boundaries first: helper processes and their temp files (inside the merge)
        faults.sort(key=lambda f: 0 if (f["at"][0] in ("spawn", "mkdtemp", "rmtree") or str(f["at"][1]).startswith("tmp")) else 1)
        head = [f for f in faults if f["at"][0] == "spawn"][: max(2, budget // 3)]
        faults = head + [f for f in faults if f not in head]
        picked, classes = [], set()
        for f in faults:
            c = (f["at"][0], str(f["at"][1]).split(":")[0], f["kind"])
            if c not in classes and len(picked) < budget:
                classes.add(c)
                picked.append(f)
        faults = picked
    return faults, total


def execute(trace, scratch):
    sc = trace["scenario"]
    if sc["entry"] == "e2e":
        return execute_e2e(trace, scratch)
    core.set_nested_scratch(os.path.join(scratch, "passes"))
    violations = []
    stats = {}
    distinct = {"fault_site": set(), "scenario_shape": set()}

    def stat(k, n=1):
        stats[k] = stats.get(k, 0) + n
    log = EventLog(keep=False)

    def violate(oracle, sig, detail):
        log.ev("violation", oracle=oracle, sig=sig)
        violations.append(Violation(oracle, sig, detail))

    def run_pass(plan, line_total=None, count_lines=False):
        r = core.run_one_forked(one_pass, (sc, plan, line_total, count_lines), 120)
        if "harness_error" in r:
            raise HarnessError(r["harness_error"])
        return r["ok"]

    ref = run_pass([])
    stat("passes")
    stat("reference_passes")
    log.ev("reference", status=ref["status"], events=ref["events"], digest=ref["digest"])
    kind = check_reference(sc, ref, violate)
    stat("scenario_" + kind)
    stat("scenario_entry_" + sc["entry"])
    stat("scenario_out_" + sc["out"])
    stat("scenario_shape_" + sc["shape"])
    if any(e[0] == "spawn" for e in ref["events"]):
        stat("scenario_with_helper_spawn")
    distinct["scenario_shape"].add(core.sha([sc["entry"], sc["out"], sc["shape"], sc["decisions"], kind, sorted(sc["helpers"]), sc["flags"]])[:12])
    seed = int(str(trace.get("run_seed") or "1"), 16)
    rng = random.Random(seed ^ 0x5EED)
    line_total = None
    explicit = trace.get("explicit_faults")
    need_lines = (explicit is None and sc.get("line_faults")) or any(f["at"][0] == "line" for f in explicit or [])
    if need_lines and "merged" in ref["captured"]:
        cnt = run_pass([], count_lines=True)
        stat("passes")
        line_total = cnt["lines"]
    if explicit is not None:
        faults, total = list(explicit), len(explicit)
    else:
        faults, total = _enumerate_faults(ref["events"], sc, rng, trace.get("fault_budget", 14), line_total)
    stat("single_faults_possible", total)
    if explicit is None and len(faults) == total:
        stat("scenarios_all_single_faults_enumerated")
    outcomes = {}
    first_violating = None
    plans = [[f] for f in faults]
    if explicit is None and trace.get("pair_budget"):
        # sampled double faults: a non-fatal first fault (error, not kill) followed by a second one at a later boundary
        seam = [e for e in ref["events"] if tuple(e) != ("open_w", "stdout", 0)]
        for _ in range(trace["pair_budget"]):
            if len(seam) < 2:
                break
            i = rng.randrange(len(seam) - 1)
            j = rng.randrange(i + 1, len(seam))
            k1 = [k for k in LEGAL.get(seam[i][0], []) if k not in ("kill",)]
            k2 = LEGAL.get(seam[j][0], [])
            if k1 and k2 and seam[i] != seam[j]:
                plans.append([{"at": list(seam[i]), "kind": rng.choice(k1)}, {"at": list(seam[j]), "kind": rng.choice(k2)}])
    elif explicit is not None and trace.get("explicit_is_one_plan"):
        plans = [list(explicit)]
    for plan in plans:
        f = plan[-1] if len(plan) > 1 else plan[0]
        if len(plan) > 1:
            stat("double_fault_passes")
        res = run_pass(plan, line_total=line_total)
        stat("passes")
        stat("fault_passes")
        nv = len(violations)
        out = check_faulted(sc, ref, res, f, violate)
        outcomes[out] = outcomes.get(out, 0) + 1
        stat("outcome_" + out)
        if res["fired"]:
            stat("fault_fired_" + f["kind"])
            distinct["fault_site"].add("%s|%s|%s" % (f["at"][0], str(f["at"][1]).split(":")[0] if f["at"][0] != "line" else "merge", f["kind"]))
        log.ev("pass", fault=f, status=res["status"], outcome=out, digest=res["digest"])
        if len(violations) > nv and first_violating is None:
            first_violating = plan
    sample = {"entry": sc["entry"], "shape": sc["shape"], "out": sc["out"], "flags": sc["flags"], "decisions": sc["decisions"],
              "helpers": sc["helpers"], "reference": {"status": ref["status"], "kind": kind, "seam_events": ref["events"][:60]},
              "faults_tried": len(faults), "faults_possible": total, "outcomes": outcomes}
    out = {"violations": violations, "digest": log.digest(), "events": len(ref["events"]) * (1 + len(faults)),
           "stats": stats, "distinct": {k: sorted(v) for k, v in distinct.items()}, "sample": sample}
    if first_violating is not None:
        out["violating_fault"] = first_violating
    return out


# ------------------------------------------------------------------ end-to-end arm: real `git merge`, real SIGKILL

def execute_e2e(trace, scratch):
    """A sandbox repository whose merge driver is a shim that installs the same seams from a plan file and calls the real
    driver main; real `git merge` runs it.  Plans include a real SIGKILL of the driver at a chosen seam event."""
    import nbformat
    from simkit.world import real_run
    sc = trace["scenario"]
    w = World(scratch, helpers=("git", "diff3", "diff"))
    log = EventLog(keep=False)
    log.add_subst(w.root, "$S")
    violations, stats = [], {}
    distinct = {"fault_site": set(), "scenario_shape": set()}

    def stat(k, n=1):
        stats[k] = stats.get(k, 0) + n

    def violate(oracle, sig, detail):
        log.ev("violation", oracle=oracle, sig=sig)
        violations.append(Violation(oracle, sig, detail))

    shim = os.path.join(w.bin, "git-nbmergedriver")
    with open(shim, "w") as f:
        f.write("#!/bin/sh\nexec '%s' '%s' \"$@\"\n" % (sys.executable, os.path.join(core.VERIF, "simkit", "e2e_shim.py")))
    os.chmod(shim, 0o755)
    plan_file = os.path.join(w.root, "plan.json")
    log_file = os.path.join(w.root, "driver.log")
    extra = {"VERIF_E2E_PLAN": plan_file, "VERIF_E2E_LOG": log_file, "VERIF_E2E_ROOT": w.root}
    nbpath = os.path.join(w.work, "nb.ipynb")

    def write_nb(nb):
        with open(nbpath, "w", encoding="utf8") as f:
            json.dump(nb, f, indent=1)
            f.write("\n")
    w.git("init", "-q", "-b", "main", ".")
    w.git("config", "merge.jupyternotebook.driver", "git-nbmergedriver merge %s %%O %%A %%B %%L %%P" % " ".join(sc["flags"]))
    w.git("config", "merge.jupyternotebook.name", "jupyter notebook merge driver")
    with open(os.path.join(w.work, ".git", "info", "attributes"), "w") as f:
        f.write("*.ipynb\tmerge=jupyternotebook%s\n" % ("" if sc.get("marker", "7") == "7" else " conflict-marker-size=" + sc["marker"]))
    write_nb(sc["triple"]["base"])
    w.git("add", "nb.ipynb")
    w.git("commit", "-q", "-m", "base")
    w.git("checkout", "-q", "-b", "theirs")
    write_nb(sc["triple"]["remote"])
    w.tick()
    w.git("commit", "-q", "--allow-empty", "-am", "remote")
    w.git("checkout", "-q", "main")
    write_nb(sc["triple"]["local"])
    w.tick()
    w.git("commit", "-q", "--allow-empty", "-am", "local")
    pre = w.git("rev-parse", "HEAD").stdout.decode().strip()

    def norm_text(text):
        try:
            return _canon_nb(nbformat.reads(text, as_version=4))
        except Exception:
            return {"__unparsable__": (text or "")[:200]}

    def one(plan):
        with open(plan_file, "w") as f:
            json.dump(plan, f)
        open(log_file, "w").close()
        w.tick()
        p = w.git("merge", "--no-edit", "-q", "theirs", check=False, env_extra=extra)
        obs = {"rc": p.returncode, "unmerged": bool(w.git("ls-files", "-u").stdout.strip()),
               "head": w.git("rev-parse", "HEAD").stdout.decode().strip()}
        obs["committed"] = obs["head"] != pre
        blob = w.git("show", "HEAD:nb.ipynb", check=False)
        obs["head_nb"] = norm_text(blob.stdout.decode("utf8", "replace")) if blob.returncode == 0 else None
        try:
            with open(nbpath, encoding="utf8") as f:
                obs["work_nb"] = norm_text(f.read())
        except OSError:
            obs["work_nb"] = None
        recs = []
        with open(log_file) as f:
            for line in f:
                try:
                    recs.append(json.loads(line))
                except ValueError:
                    pass
        obs["events"] = [r["seam"] for r in recs if "seam" in r]
        obs["fired"] = [r["fault"] for r in recs if "fault" in r]
        obs["killed"] = any("killed" in r for r in recs)
        cap = [r["captured"] for r in recs if "captured" in r]
        obs["captured"] = cap[-1] if cap else None
        obs["driver_exit"] = next((r["exit"] for r in recs if "exit" in r), None)
        w.git("merge", "--abort", check=False)
        w.git("reset", "--hard", "-q", pre)
        for fn in os.listdir(w.work):
            if fn.startswith(".merge_file_"):
                os.remove(os.path.join(w.work, fn))
        return obs

    sig0 = {"entry": "e2e", "out": "inplace", "shape": "plain", "fault": None}
    ref = one([])
    stat("passes")
    stat("reference_passes")
    stat("scenario_entry_e2e")
    stat("e2e_git_merges")
    log.ev("reference", rc=ref["rc"], events=ref["events"], committed=ref["committed"])
    if not ref["events"] and ref["captured"] is None:
        # git settled the merge without calling the driver (both sides made the same change, fast-forward, ...)
        stat("scenario_e2e_driver_not_invoked")
        return {"violations": [], "digest": log.digest(), "events": 0, "stats": stats,
                "distinct": {k: sorted(v) for k, v in distinct.items()}, "sample": None}
    if ref["captured"] is None:
        # driver never got to a merge result on its own (input-determined): git must not have committed anything
        if ref["committed"] or ref["rc"] == 0:
            violate("E", dict(sig0, what="committed_without_result"), "git merge succeeded although the driver never produced a merge result")
        kind = "input_determined_failure"
        want = None
    else:
        try:
            want = _norm_written(ref["captured"]["merged"])
        except Exception:
            want = None     # nbformat refuses to serialise the merged notebook (cell id object): the driver crashes too
        known = _collect_ids([sc["triple"][k] for k in ("base", "local", "remote")])
        if want is None:
            kind = "crash_after_merge"
            if ref["committed"] or ref["rc"] == 0:
                violate("E", dict(sig0, what="committed_after_driver_crash"), "the driver cannot serialise its result but git merge succeeded")
        elif ref["captured"]["conflict"]:
            kind = "conflicted"
            if ref["rc"] == 0 or ref["committed"] or not ref["unmerged"]:
                violate("E", dict(sig0, what="conflict_committed"), "the driver reported conflicts but git merge rc=%s committed=%s unmerged=%s" % (ref["rc"], ref["committed"], ref["unmerged"]))
            elif _mask_ids(ref["work_nb"], known) != _mask_ids(want, known):
                violate("E", dict(sig0, what="worktree_content"), "conflicted merge: the working-tree file does not hold the driver's merged notebook")
        else:
            kind = "clean"
            if ref["rc"] != 0 or not ref["committed"] or ref["unmerged"]:
                violate("E", dict(sig0, what="clean_not_committed"), "clean driver merge but git merge rc=%s committed=%s unmerged=%s" % (ref["rc"], ref["committed"], ref["unmerged"]))
            elif _mask_ids(ref["head_nb"], known) != _mask_ids(want, known):
                violate("E", dict(sig0, what="committed_content"), "git committed a blob that differs from the driver's merged notebook")
    stat("scenario_e2e_" + kind)
    distinct["scenario_shape"].add(core.sha(["e2e", kind, sc["flags"]])[:12])
    rng = random.Random(int(str(trace.get("run_seed") or "1"), 16) ^ 0xE2E)
    explicit = trace.get("explicit_faults")
    if explicit is not None:
        faults = list(explicit)
    else:
        faults, total = _enumerate_faults(ref["events"], sc, rng, trace.get("fault_budget", 6), None)
        kills = [f for f in faults if f["kind"] == "kill"]
        if not kills:
            cand = [e for e in ref["events"] if e[0] in ("write", "rawwrite", "rename", "open_w", "close", "phase")]
            if cand:
                faults.append({"at": list(rng.choice(cand)), "kind": "kill"})
        stat("single_faults_possible", total)
    first_violating = None
    known = _collect_ids([sc["triple"][k] for k in ("base", "local", "remote")])
    for f in faults:
        obs = one([f])
        stat("passes")
        stat("fault_passes")
        stat("e2e_git_merges")
        nv = len(violations)
        sig = {"entry": "e2e", "out": "inplace", "shape": "plain", "fault": f["kind"], "event": [f["at"][0], f["at"][1]]}
        if not obs["fired"] and not obs["killed"]:
            stat("outcome_not_fired")
            continue
        stat("fault_fired_" + f["kind"])
        if obs["killed"]:
            stat("probe_real_sigkill_of_driver")
        distinct["fault_site"].add("e2e|%s|%s|%s" % (f["at"][0], str(f["at"][1]).split(":")[0], f["kind"]))
        clean = obs["rc"] == 0 and obs["committed"] and not obs["unmerged"]
        if clean:
            if want is None or kind != "clean":
                violate("E1", dict(sig, what="committed_without_clean_result"),
                        "git committed a merge after fault %r although the fault-free driver run has %s" % (f, kind))
            elif obs["captured"] is None or _mask_ids(obs["head_nb"], known) != _mask_ids(want, known):
                violate("E1", dict(sig, what="committed_content"),
                        "after fault %r git committed a blob that is not the complete merged notebook (driver exit %r, killed %s)" % (f, obs["driver_exit"], obs["killed"]))
            else:
                stat("outcome_complete")
        else:
            if obs["committed"]:
                violate("E2", dict(sig, what="partial_commit"), "after fault %r git merge rc=%s but a commit was created" % (f, obs["rc"]))
            elif obs["killed"] or (obs["driver_exit"] not in (0, None)) or obs["driver_exit"] is None:
                stat("outcome_failed_clean")
            if (obs["killed"] or obs["driver_exit"] != 0) and obs["rc"] == 0:
                violate("E2", dict(sig, what="git_success_after_driver_failure"), "driver failed/killed after %r but git merge exited 0" % (f,))
        log.ev("pass", fault=f, rc=obs["rc"], committed=obs["committed"], unmerged=obs["unmerged"], killed=obs["killed"])
        if len(violations) > nv and first_violating is None:
            first_violating = f
    sample = {"entry": "e2e", "flags": sc["flags"], "reference": {"git_rc": ref["rc"], "kind": kind, "seam_events": ref["events"][:40]},
              "faults_tried": len(faults)}
    out = {"violations": violations, "digest": log.digest(), "events": len(ref["events"]) * (1 + len(faults)), "stats": stats,
           "distinct": {k: sorted(v) for k, v in distinct.items()}, "sample": sample}
    if first_violating is not None:
        out["violating_fault"] = first_violating
    return out


# ------------------------------------------------------------------ minimisation

def shrink(trace, fails, budget):
    sc = trace["scenario"]
    # pin the single fault that shows the violation
    if trace.get("explicit_faults") is None:
        r = core.run_one_forked(execute, (trace,), 600)
        vf = r.get("ok", {}).get("violating_fault") if "ok" in r else None
        if vf is not None:
            cand = dict(trace, explicit_faults=vf if isinstance(vf, list) else [vf], explicit_is_one_plan=isinstance(vf, list) and len(vf) > 1)
            budget.spend()
            if fails(cand):
                trace = cand
    minimal = {"cells": [], "metadata": {}, "nbformat": 4, "nbformat_minor": 4}
    for name in ("base", "local", "remote"):
        nb = trace["scenario"]["triple"][name]
        if not isinstance(nb, dict):
            continue
        cells = core.ddmin(nb.get("cells", []),
                           lambda sub, name=name, nb=nb: fails(dict(trace, scenario=dict(trace["scenario"], triple=dict(trace["scenario"]["triple"], **{name: dict(nb, cells=sub)})))),
                           budget)
        nb2 = dict(nb, cells=cells)
        trace = dict(trace, scenario=dict(trace["scenario"], triple=dict(trace["scenario"]["triple"], **{name: nb2})))
        if budget.left() and nb2.get("metadata"):
            cand = dict(trace, scenario=dict(trace["scenario"], triple=dict(trace["scenario"]["triple"], **{name: dict(nb2, metadata={})})))
            budget.spend()
            if fails(cand):
                trace = cand
    if trace["scenario"]["flags"] and budget.left():
        cand = dict(trace, scenario=dict(trace["scenario"], flags=[]))
        budget.spend()
        if fails(cand):
            trace = cand
    return trace


# ------------------------------------------------------------------ evidence

def coverage(agg):
    c = agg.counters
    cov = {
        "distinct_nontrivial": len(agg.distinct.get("fault_site", ())),
        "scenarios": agg.runs,
        "passes": c.get("passes", 0),
        "fault_passes": c.get("fault_passes", 0),
        "single_faults_possible_in_sampled_scenarios": c.get("single_faults_possible", 0),
        "scenarios_all_single_faults_enumerated": c.get("scenarios_all_single_faults_enumerated", 0),
        "distinct_scenario_shapes": len(agg.distinct.get("scenario_shape", ())),
        "faults_fired": {k[len("fault_fired_"):]: v for k, v in c.items() if k.startswith("fault_fired_")},
        "outcomes": {k[len("outcome_"):]: v for k, v in c.items() if k.startswith("outcome_")},
        "exhaustive": False,
        "simulated_time": "the merge CLI has no clock; coverage is counted in seam events (step boundaries) and passes",
        "real_vs_stub": {"real": ["nbdime.nbmergeapp.main (argument parsing, read_notebook x3, merge_notebooks, nbformat.write, agreed deletion)",
                                  "nbdime.vcs.git.mergedriver.main", "git merge-file / diff3 helpers (real binaries) when on the per-run PATH",
                                  "nbformat read/validate/write"],
                         "simulated": ["open/read/write/flush/close/remove/mkdtemp/rmtree through SimFS with its own write buffer (kill discards unflushed data, torn writes persist a prefix)",
                                       "helper spawns through SimProc (spawn failure, helper killed / status 2)", "process death as SimKill + durable-state model",
                                       "CPython exit-status rules (uncaught exception 1, KeyboardInterrupt 130, failed final stdout flush 120)",
                                       "sys.settrace abort at a seeded fraction of the nbdime lines executed inside the library merge"]},
    }
    rule = ("Each evaluation = one scenario (entry point x triple incl. placeholders x strategy flags x output mode x helper set): a fault-free reference "
            "pass discovers the seam events, then one pass per single fault (every legal kind at every discovered event in the thorough tier; a stratified "
            "sample of fault_budget in the quick tier). distinct_nontrivial counts distinct fired (event kind, path class, fault kind) sites.")
    assumptions = [
        "SIGKILL is modelled as an exception plus a write buffer that stops persisting; OS-buffered data survives a process kill",
        "exit status follows CPython's rules as modelled (incl. 120 for a failed final flush of stdout)",
        "no nbdime_config.json in the sandbox (option resolution is C19)",
        "ids of conflict-marker cells absent from all inputs are masked",
        "faults are injected only on sandbox paths and nbdime's own helper spawns, never on stderr logging",
    ]
    return cov, rule, assumptions


def self_check(agg, cfg):
    need = ["scenario_clean", "scenario_conflicted", "scenario_entry_driver", "scenario_out_stdout", "fault_fired_kill", "fault_fired_torn",
            "fault_fired_ENOSPC", "outcome_failed_clean", "scenario_with_helper_spawn"]
    return [k for k in need if not agg.counters.get(k)]
