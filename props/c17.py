"""C17 — diffing git revisions examines exactly the notebooks git reports as changed.

World: a real git repository evolved by a seeded history.  System under test: the real
nbdime.gitfiles.changed_notebooks and nbdime.nbdiffapp.main.  Oracle: git plumbing asked
independently by the harness from the same cwd with the same pathspecs."""
import contextlib
import errno
import io
import json
import os
import subprocess
import sys

from simkit import core, nbgen
from simkit.core import EventLog, Violation
from simkit.world import World, REAL

PROP = "C17"
LEVEL = "exploration"
TIERS = {
    "quick": dict(runs=2400, wall_cap=240, timeout=120, max_ops=22, shrink_seconds=90, shrink_steps=300),
    "thorough": dict(runs=50000, wall_cap=2700, timeout=180, max_ops=40, shrink_seconds=300, shrink_steps=800),
}

DIRS = ["", "sub", "sub/deep", "other", "data dir", "sub/ünï", "-opt"]
NB_NAMES = ["a.ipynb", "b.ipynb", "c.ipynb", "x y.ipynb", "z.ipynb", "a (1).ipynb", "-lead.ipynb", ":colon.ipynb"]
OTHER_NAMES = ["notes.txt", "script.py", "d.ipynb.bak", "README.md", "e.json"]

_real_popen = subprocess.Popen
_real_io_open = io.open


def prepare():
    import nbformat  # noqa
    import git  # noqa
    import nbdime.gitfiles  # noqa
    import nbdime.nbdiffapp  # noqa


def size(trace):
    return len(trace.get("ops", []))


# ------------------------------------------------------------------ generation

def _join(d, n):
    return (d + "/" + n) if d else n


def generate(rng, index, cfg):
    swarm = {
        "dirs": sorted(rng.sample(DIRS[1:], rng.randint(1, len(DIRS) - 1)) + [""]),
        "p_nb": rng.choice([0.5, 0.7, 0.9]),
        "p_query_sub": rng.choice([0.3, 0.6, 0.9]),
        "faults": rng.random() < 0.3,
        "cli": rng.random() < 0.5,
        "big_notebooks": rng.random() < 0.3,
        # a git clean filter on notebooks: nbdime applies it to working-tree files before comparing
        "clean_filter": rng.choice([None, None, None, None, "cat", "sed -e s/print/PRINT/g", "sed -e s/print/PRINT/g"]),
        # how the attribute selecting the filter is written: by basename, or by patterns containing a slash
        "filter_pattern": rng.choice(["basename", "per_dir", "per_dir"]),
        # where git finds that attribute and the filter's definition: $GIT_DIR/info/attributes, the per-user file
        # ($XDG_CONFIG_HOME/git/attributes or core.attributesFile), an in-tree .gitattributes; repository or user config
        "filter_location": rng.choice(["info", "info", "xdg", "attributesfile", "tree"]),
        "filter_config_scope": rng.choice(["local", "local", "global"]),
        # how the work tree is attached to its repository (.git directory, or a .git *file*)
        "layout": rng.choice(["plain"] * 7 + ["separate_git_dir", "linked_nested", "linked_nested"]),
    }
    dirs = swarm["dirs"]
    ops = []
    work = {}      # path -> kind ('nb'|'txt') currently in working tree
    tracked = set()
    ncommits = 0
    refs = []
    links = {}     # path -> target: notebooks currently replaced by a symbolic link
    nops = rng.randint(5, cfg["max_ops"])
    seq = 0

    def new_nb():
        return nbgen.notebook(rng, max_cells=4 if swarm["big_notebooks"] else 2)

    def pick_path(nb=None):
        nb = (rng.random() < swarm["p_nb"]) if nb is None else nb
        d = rng.choice(dirs)
        return _join(d, rng.choice(NB_NAMES if nb else OTHER_NAMES)), nb

    def commit():
        nonlocal ncommits, seq
        seq += 1
        ops.append({"op": "git", "argv": ["add", "-A"]})
        ops.append({"op": "commit", "msg": "c%d" % seq})
        ncommits += 1
        tracked.clear()
        tracked.update(work)

    def query():
        q = {"op": "query"}
        q["api"] = "cli" if (swarm["cli"] and rng.random() < 0.4) else "changed_notebooks"
        subdirs = [d for d in dirs if d and any(p.startswith(d + "/") for p in list(work) + list(tracked))]
        q["cwd"] = rng.choice(subdirs) if (subdirs and rng.random() < swarm["p_query_sub"]) else ""
        commits = ["HEAD"] + ["HEAD~%d" % k for k in range(1, min(ncommits, 4))] + refs
        if ncommits > 1:
            commits += ["HEAD^", "@SHA:HEAD~1", "@SHA:HEAD", "main", "refs/heads/main"]
        kind = rng.choice(["cc", "ci", "cw", "cw", "iw", "iw"] if ncommits else ["iw"])
        if q["api"] == "cli":
            kind = rng.choice(["cc", "cw", "cw"]) if ncommits else None
            if kind is None:
                q["api"] = "changed_notebooks"
                kind = "iw"
        if kind == "cc":
            q["ref_a"], q["ref_b"] = rng.choice(commits), rng.choice(commits)
        elif kind == "ci":
            q["ref_a"], q["ref_b"] = rng.choice(commits), "INDEX"
        elif kind == "cw":
            q["ref_a"], q["ref_b"] = rng.choice(commits), "WORKING"
        else:
            q["ref_a"], q["ref_b"] = "INDEX", "WORKING"
        r = rng.random()
        cands = sorted(set(list(work) + list(tracked)))
        cwd = q["cwd"]

        def rel(p):
            r = os.path.relpath(p, cwd or ".")
            # on a command line a name with a leading dash is spelled ./-name (it would be read as an option)
            # (and a leading colon would be pathspec magic, on the command line and in the API alike)
            return "./" + r if ((r.startswith("-") and q["api"] == "cli") or r.startswith(":")) else r
        if r < 0.45 or not cands:
            q["paths"] = None
        elif r < 0.65:
            q["paths"] = [rel(rng.choice(cands))]
        elif r < 0.85:
            d = rng.choice(dirs)
            q["paths"] = [rel(d or ".")]
        else:
            q["paths"] = [rel(p) for p in rng.sample(cands, min(len(cands), rng.randint(2, 3)))]
        if rng.random() < 0.12:
            # wildcards that reach nbdime unexpanded (quoted on the command line): git's pathspec matching decides;
            # pathspec magic only from the top directory (a prefix cannot simply be joined in front of it)
            pats = ["*.ipynb", "*", rel(rng.choice(dirs) or ".").rstrip("/") + "/*.ipynb", rel(rng.choice(dirs) or ".").rstrip("/") + "/*",
                    "[a-c].ipynb", "?.ipynb"]
            if not cwd:
                pats += [":(glob)**/b.ipynb", ":(glob)**/*.ipynb", ":!sub", ":(icase)A.IPYNB"]
            q["paths"] = [rng.choice(pats)]
            if q["paths"][0] == ":!sub":
                q["paths"] = [".", ":!sub"]
        elif q["paths"] and rng.random() < 0.25:
            # other spellings of the same pathspecs: './x', a trailing slash on directories
            def respell(pth):
                r2 = rng.random()
                if r2 < 0.4 and not pth.startswith((".", "/")):
                    return "./" + pth
                if r2 < 0.7 and not pth.endswith(".ipynb") and not pth.endswith((".txt", ".py", ".md", ".json", ".bak")):
                    return pth.rstrip("/") + "/"
                return pth
            q["paths"] = [respell(x) for x in q["paths"]]
        if q["paths"] and rng.random() < 0.15:
            # absolute pathspecs (an editor integration passes the absolute file name); resolved at execution time
            q["paths"] = ["@ABS:" + os.path.normpath(os.path.join(cwd or ".", x)) if not x.startswith("@") else x for x in q["paths"]]
        if q["api"] == "changed_notebooks" and q["paths"] and len(q["paths"]) == 1 and rng.random() < 0.3:
            q["paths"] = q["paths"][0]  # a bare string is accepted too
        c = rng.random()
        q["consume"] = "all" if c < 0.7 else ({"close_after": rng.randint(0, 2)} if c < 0.85 else {"raise_after": rng.randint(0, 2)})
        q["fault"] = None
        if swarm["faults"] and swarm["clean_filter"] and q["ref_b"] == "WORKING" and rng.random() < 0.35:
            q["fault"] = {"kind": "filter_fail", "nth_filter": rng.choice([0, 0, 1, 2])}
        elif swarm["faults"] and rng.random() < 0.5:
            q["fault"] = rng.choice([{"kind": "vanish", "nth_open": rng.randint(0, 1)}, {"kind": "vanish", "nth_open": 0},
                                     {"kind": "spawn_fail", "nth_spawn": rng.randint(0, 4),
                                      "errno": rng.choice(["ENOMEM", "EAGAIN", "EMFILE"])}])
        if q["api"] == "cli":
            q["out"] = rng.random() < 0.3
            if rng.random() < 0.4 and ncommits:
                # raw command line: tokens that may be refs, paths, or both; the harness resolves them independently
                toks = []
                pool_refs = commits
                pool_paths = [rel(p) for p in cands] + [rel(d or ".") for d in dirs] + ["nowhere.ipynb"]
                arity = rng.choice([0, 1, 1, 2, 2, 3, 4])
                for i in range(arity):
                    if i < 2 and rng.random() < (0.7 if i == 0 else 0.4):
                        toks.append(rng.choice(pool_refs))
                    else:
                        toks.append(rng.choice(pool_paths))
                q["api"] = "cli_raw"
                q["argv"] = toks
        ops.append(q)

    # initial content + first commit so that most histories have a HEAD
    for _ in range(rng.randint(1, 5)):
        p, nb = pick_path()
        ops.append({"op": "write_nb", "path": p, "nb": new_nb()} if nb else {"op": "write_txt", "path": p, "text": "t%d\n" % len(ops)})
        work[p] = "nb" if nb else "txt"
    if rng.random() < 0.9:
        commit()
    while len(ops) < nops:
        r = rng.random()
        files = sorted(work)
        if r < 0.16:
            p, nb = pick_path()
            ops.append({"op": "write_nb", "path": p, "nb": new_nb()} if nb else {"op": "write_txt", "path": p, "text": "t%d\n" % len(ops)})
            work[p] = "nb" if nb else "txt"
        elif r < 0.34 and files:
            p = rng.choice(files)
            if work[p] == "nb":
                ops.append({"op": "edit_nb", "path": p, "seed": rng.getrandbits(32)})
            else:
                ops.append({"op": "write_txt", "path": p, "text": "edited %d\n" % len(ops)})
        elif r < 0.42 and files:
            p = rng.choice(files)
            if p in links.values():
                continue
            links.pop(p, None)
            ops.append({"op": "rm", "path": p})
            del work[p]
        elif r < 0.52 and files:
            p = rng.choice(files)
            kind = work[p]
            # renames may cross the .ipynb extension boundary occasionally
            # (only notebook -> other name: a text file renamed to *.ipynb would be a "notebook" that is not JSON)
            q, _ = pick_path(nb=(kind == "nb") and rng.random() < 0.85)
            if q not in work and p not in links and p not in links.values():
                via_git = p in tracked and rng.random() < 0.5
                ops.append({"op": "git_mv" if via_git else "mv", "src": p, "dst": q})
                work[q] = work.pop(p)
                if via_git:
                    tracked.discard(p)
                    tracked.add(q)
        elif r < 0.535 and files:
            # a type change: a notebook replaced by a symbolic link to another notebook, or a link by a regular file
            nbs = [f for f in files if work[f] == "nb" and f not in links and f not in links.values()]
            if links and rng.random() < 0.4:
                p = rng.choice(sorted(links))
                del links[p]
                ops.append({"op": "rm", "path": p})
                ops.append({"op": "write_nb", "path": p, "nb": new_nb()})
            elif len(nbs) >= 2:
                p, q = rng.sample(nbs, 2)
                links[p] = q
                ops.append({"op": "symlink", "path": p, "target": q})
        elif r < 0.56 and files:
            ops.append({"op": "chmod", "path": rng.choice([f for f in files if f not in links] or files)})     # a mode-only change
        elif r < 0.60 and files:
            # (-N: intent to add - the path is in the index with no content yet)
            ops.append({"op": "git", "argv": ["add"] + (["-N"] if rng.random() < 0.25 else []) + ["--", rng.choice(files)]})
        elif r < 0.64:
            ops.append({"op": "git", "argv": ["add", "-A"]})
        elif r < 0.68 and tracked:
            p = rng.choice(sorted(tracked))
            if p in links.values():
                continue          # (no dangling links: what a notebook is that points nowhere is not C17's subject)
            links.pop(p, None)
            ops.append({"op": "git", "argv": ["rm", "-q", "-f", "--cached" if rng.random() < 0.4 else "-f", "--", p]})
            tracked.discard(p)
        elif r < 0.80:
            commit()
        elif r < 0.84 and ncommits:
            name = "%s%d" % (rng.choice(["t", "b"]), len(refs))
            kind = "tag" if name[0] == "t" else "branch"
            if rng.random() < 0.3:
                # a ref whose name is also the name of a directory or file somewhere in the tree
                name = rng.choice(["sub", "other", "a.ipynb", "z.ipynb", "deep", "notes.txt"])
            if name not in refs:
                if kind == "tag" and rng.random() < 0.5:
                    ops.append({"op": "git", "argv": ["tag", "-a", "-m", "annotated " + name, name]})   # a tag object
                else:
                    ops.append({"op": "git", "argv": [kind, name]})
                refs.append(name)
                if rng.random() < 0.2:
                    refs.append(("refs/tags/" if kind == "tag" else "refs/heads/") + name)    # another spelling
        else:
            query()
    for _ in range(rng.randint(1, 4)):
        query()
    return {"swarm": swarm, "ops": ops}


# ------------------------------------------------------------------ execution

class _SpawnFault:
    """subprocess.Popen seam for nbdime's own git spawns (GitPython + check_output)."""

    def __init__(self, log):
        self.log = log
        self.count = 0
        self.plan = None
        self.fired = 0
        self.filter_cmd = None
        self.filters_seen = 0
        self.fired_filter = 0
        self.filter_failed = []     # real paths of the files whose filter run was made to fail

    def __call__(self, *a, **kw):
        if kw.get("shell") and a and isinstance(a[0], str) and a[0] == self.filter_cmd:
            # the clean filter of a working-tree notebook
            k = self.filters_seen
            self.filters_seen += 1
            if self.plan is not None and self.plan.get("kind") == "filter_fail" and self.plan["nth_filter"] == k:
                name = getattr(kw.get("stdin"), "name", None)
                if isinstance(name, str):
                    cand = [os.path.abspath(name)] + ([os.path.join(kw["cwd"], name)] if kw.get("cwd") else [])
                    self.filter_failed.extend(os.path.realpath(c) for c in cand)
                self.fired_filter += 1
                self.log.ev("fault", kind="filter_fail", n=k)
                # the filter dies half-way: some output, a message, a non-zero status
                return _real_popen("head -c 40; echo 'clean filter crashed'; exit 3", *a[1:], **kw)
            return _real_popen(*a, **kw)
        n = self.count
        self.count += 1
        if self.plan is not None and self.plan.get("kind", "spawn_fail") == "spawn_fail" and self.plan["nth_spawn"] == n:
            self.fired += 1
            self.log.ev("fault", kind="spawn_fail", n=n, errno=self.plan["errno"])
            raise OSError(getattr(errno, self.plan["errno"]), os.strerror(getattr(errno, self.plan["errno"])))
        return _real_popen(*a, **kw)


class _OpenFault:
    def __init__(self, log, root):
        self.log = log
        self.root = root
        self.count = 0
        self.plan = None
        self.fired = []

    def __call__(self, file, *a, **kw):
        if isinstance(file, str) and file.endswith(".ipynb"):
            n = self.count
            self.count += 1
            if self.plan is not None and self.plan["nth_open"] == n:
                target = os.path.abspath(file)
                if kw.get("opener") is not None:
                    # the caller resolves the name itself (e.g. against the repository root): ask its opener which
                    # file that is, then let it vanish
                    seen, real_os_open = [], os.open

                    def probe(pth, *a2, **kw2):
                        seen.append(pth)
                        raise FileNotFoundError(errno.ENOENT, "probe", pth)
                    os.open = probe
                    try:
                        kw["opener"](file, os.O_RDONLY)
                    except OSError:
                        pass
                    finally:
                        os.open = real_os_open
                    if seen and isinstance(seen[0], str):
                        target = os.path.abspath(seen[0])
                self.fired.append(os.path.relpath(target, self.root))
                self.log.ev("fault", kind="vanish", n=n)
                raise FileNotFoundError(errno.ENOENT, "No such file or directory (injected)", file)
        return _real_io_open(file, *a, **kw)


def _stream_name(s):
    """(path or None) from a yielded side."""
    if isinstance(s, str):
        return None if s == "/dev/null" else s
    name = getattr(s, "name", "")
    if name.endswith(")") and " (" in name:
        name = name[:name.rindex(" (")]
    return name


def _stream_text(s):
    if isinstance(s, str):
        if s == "/dev/null":
            return None
        with _real_io_open(s, encoding="utf-8") as f:
            return f.read()
    pos = None
    try:
        pos = s.tell()
    except Exception:
        pass
    t = s.read()
    try:
        s.seek(pos or 0)
    except Exception:
        pass
    return t


def _parse(text):
    if text is None:
        return None
    try:
        return json.loads(text)
    except ValueError:
        return {"__unparsable__": text}


def _expected(world, q, cwd_abs):
    """Ask git itself.  Returns (entries, error) with entries = [(status, a, b)]."""
    argv = ["diff", "--name-status", "-M", "-z", "--no-color", "--no-ext-diff"]
    a, b = q["ref_a"], q["ref_b"]
    if a == "INDEX" and b == "WORKING":
        pass
    elif b == "INDEX":
        argv += ["--cached", a]
    elif b == "WORKING":
        argv += [a]
    else:
        argv += [a, b]
    argv.append("--")
    paths = q.get("paths")
    if isinstance(paths, str):
        paths = [paths]
    if paths:
        argv += paths
    p = world.git(*argv, cwd=cwd_abs, check=False)
    if p.returncode != 0:
        return None, p.stderr.decode("utf8", "replace")
    toks = p.stdout.decode("utf8", "surrogateescape").split("\0")
    out = []
    i = 0
    while i < len(toks) and toks[i]:
        st = toks[i]
        if st[0] in "RC":
            out.append((st[0], toks[i + 1], toks[i + 2]))
            i += 3
        else:
            out.append((st[0], toks[i + 1], toks[i + 1]))
            i += 2
    return out, None


def _side_content(world, ref, path, clean_filter=None):
    if path is None:
        return None
    if ref == "WORKING":
        try:
            with open(os.path.join(world.work, path), "rb") as f:
                data = f.read()
        except OSError:
            return None
        if clean_filter:
            # what git itself would compare: the working file passed through the clean filter
            from simkit.world import real_run
            p = real_run(["/bin/sh", "-c", clean_filter], cwd=world.work, env=world.env, input=data)
            data = p.stdout
        return data.decode("utf8", "replace")
    spec = (":" + path) if ref == "INDEX" else ("%s:%s" % (ref, path))
    p = world.git("show", spec, check=False)
    if p.returncode != 0:
        return None
    return p.stdout.decode("utf8", "replace")


def _is_nb(p):
    return p.endswith(".ipynb")


class Runner:
    def __init__(self, trace, scratch):
        self.trace = trace
        self.world = World(scratch, helpers=("git", "diff", "cat", "sed", "sh"))
        self.log = EventLog(keep=False)
        self.log.add_subst(self.world.root, "$S")
        self.violations = []
        self.stats = {}
        self.distinct = {"query_shape": set(), "entry_kinds": set()}
        self.sample = None

    def stat(self, k, n=1):
        self.stats[k] = self.stats.get(k, 0) + n

    def violate(self, oracle, sig, detail):
        if getattr(self, "colon_entry", False) and oracle in ("G1", "G2", "G3"):
            # known finding (known_findings.json): GitPython splits git's raw -z diff at NUL-colon, so a changed path
            # that *starts* with a colon derails the parse of that entry and of all that follow.  One fixed signature,
            # so that exactly this input is matched and any other violation is still reported on its own.
            oracle, sig = "G1", {"what": "colon_leading_path"}
        self.log.ev("violation", oracle=oracle, sig=sig)
        self.violations.append(Violation(oracle, sig, detail))

    # ---- world ops
    def do_op(self, op):
        w = self.world
        k = op["op"]
        try:
            # no dangling links, also in minimised histories: a step that would take away the target of a link is a no-op
            gone = None
            if k in ("rm",):
                gone = op["path"]
            elif k in ("mv", "git_mv"):
                gone = op["src"]
            elif k == "git" and op["argv"][:1] == ["rm"] and "--cached" not in op["argv"]:
                gone = op["argv"][-1]
            if gone is not None:
                links = getattr(self, "links", {})
                if k in ("mv", "git_mv") and os.path.islink(os.path.join(w.work, gone)):
                    raise OSError("a relative link would dangle after the move")
                links.pop(gone, None)
                if gone in links.values():
                    raise OSError("a link points here")
            if k == "write_nb":
                p = os.path.join(w.work, op["path"])
                os.makedirs(os.path.dirname(p), exist_ok=True)
                with open(p, "w", encoding="utf-8") as f:
                    json.dump(op["nb"], f, indent=1, sort_keys=True, ensure_ascii=False)
                    f.write("\n")
            elif k == "write_txt":
                p = os.path.join(w.work, op["path"])
                os.makedirs(os.path.dirname(p), exist_ok=True)
                with open(p, "w", encoding="utf-8") as f:
                    f.write(op["text"])
            elif k == "edit_nb":
                p = os.path.join(w.work, op["path"])
                import random
                with open(p, encoding="utf-8") as f:
                    nb = json.load(f)
                nb = nbgen.edit(random.Random(op["seed"]), nb)
                with open(p, "w", encoding="utf-8") as f:
                    json.dump(nb, f, indent=1, sort_keys=True, ensure_ascii=False)
                    f.write("\n")
            elif k == "rm":
                os.remove(os.path.join(w.work, op["path"]))
            elif k == "symlink":
                pth = os.path.join(w.work, op["path"])
                tgt = os.path.join(w.work, op["target"])
                if not os.path.isfile(tgt) or os.path.islink(tgt) or os.path.islink(pth):
                    raise OSError("target vanished")      # (minimisation dropped it: no dangling links, chains or loops)
                os.remove(pth)
                self.links = dict(getattr(self, "links", {}), **{op["path"]: op["target"]})
                os.symlink(os.path.relpath(os.path.join(w.work, op["target"]), os.path.dirname(pth)), pth)
                self.stat("ops_symlink")
            elif k == "chmod":
                pth = os.path.join(w.work, op["path"])
                os.chmod(pth, os.stat(pth).st_mode ^ 0o111)
            elif k == "mv":
                dst = os.path.join(w.work, op["dst"])
                os.makedirs(os.path.dirname(dst), exist_ok=True)
                os.rename(os.path.join(w.work, op["src"]), dst)
            elif k == "git_mv":
                dst = os.path.join(w.work, op["dst"])
                os.makedirs(os.path.dirname(dst), exist_ok=True)
                p = w.git("mv", "--", op["src"], op["dst"], check=False)
                self.log.ev("git", argv=["mv"], rc=p.returncode)
            elif k == "git":
                p = w.git(*op["argv"], check=False)
                self.log.ev("git", argv=op["argv"], rc=p.returncode)
            elif k == "commit":
                w.tick()
                p = w.git("commit", "-q", "--allow-empty", "-m", op["msg"], check=False)
                head = w.git("rev-parse", "HEAD", check=False).stdout.decode().strip()
                self.log.ev("commit", rc=p.returncode, head=head)
            else:
                raise core.HarnessError("unknown op %r" % k)
            self.log.ev("op", op=k, path=op.get("path"))
        except (OSError, ValueError) as e:
            # precondition vanished (e.g. after minimisation dropped an earlier op): logged no-op
            self.log.ev("noop", op=k, err=type(e).__name__)

    # ---- independent reading of the documented command-line rule (ref vs path, tested relative to the cwd)
    def _valid_ref(self, tok, cwd):
        p = self.world.git("rev-parse", "--verify", "-q", "%s^{commit}" % (tok or "HEAD"), cwd=cwd, check=False)
        return p.returncode == 0

    def _tok_is_both(self, tok, cwd):
        return tok is not None and os.path.exists(os.path.join(cwd, tok)) and self._valid_ref(tok, cwd)

    def _is_ref(self, tok, cwd):
        if tok is not None and (os.path.exists(os.path.join(cwd, tok)) or tok == "/dev/null"):
            return False
        return self._valid_ref(tok, cwd)

    def resolve_cli(self, argv, cwd):
        base = argv[0] if len(argv) > 0 else "HEAD"
        remote = argv[1] if len(argv) > 1 else None
        paths = list(argv[2:]) or None
        isref = lambda t: self._is_ref(t, cwd)
        if remote is None and paths is None:
            if not isref(base):
                paths, base = [base], "HEAD"
        elif paths is None:
            if isref(base) and not isref(remote):
                paths, remote = [remote], None
        else:
            if not isref(base):
                paths, base, remote = [base, remote] + paths, None, None
            elif not isref(remote):
                paths, remote = [remote] + paths, None
        if not (isref(base) and isref(remote)):
            return None
        return (base or "HEAD", remote if remote is not None else "WORKING", paths)

    # ---- the query
    def do_query(self, q):
        import git.cmd
        import nbdime.gitfiles as gitfiles
        import nbdime.nbdiffapp as nbdiffapp
        w = self.world
        cwd_abs = os.path.join(w.work, q["cwd"]) if q["cwd"] else w.work
        if not os.path.isdir(cwd_abs):
            self.log.ev("noop", op="query", err="cwd missing")
            return
        def sha_tok(t):
            if isinstance(t, str) and t.startswith("@SHA:"):
                pr = w.git("rev-parse", "--short=10", t[5:], check=False)
                return pr.stdout.decode().strip() or t[5:]
            return t
        if any(isinstance(q.get(k), str) and q[k].startswith("@SHA:") for k in ("ref_a", "ref_b")) or \
                any(isinstance(t, str) and t.startswith("@SHA:") for t in (q.get("argv") or [])):
            q = dict(q, ref_a=sha_tok(q.get("ref_a")), ref_b=sha_tok(q.get("ref_b")))
            if q.get("argv"):
                q["argv"] = [sha_tok(t) for t in q["argv"]]
            self.stat("queries_with_abbreviated_sha")
        def abs_tok(t):
            if isinstance(t, str) and t.startswith("@ABS:"):
                return os.path.normpath(os.path.join(w.work, t[5:]))
            return t
        pp0 = q.get("paths")
        if pp0 and any(isinstance(t, str) and t.startswith("@ABS:") for t in ([pp0] if isinstance(pp0, str) else pp0)):
            q = dict(q, paths=abs_tok(pp0) if isinstance(pp0, str) else [abs_tok(t) for t in pp0])
            self.stat("queries_with_absolute_pathspec")
        if q.get("argv") and any(isinstance(t, str) and t.startswith("@ABS:") for t in q["argv"]):
            q = dict(q, argv=[abs_tok(t) for t in q["argv"]])
        raw_argv = None
        git_mode = True
        if q["api"] in ("cli", "cli_raw"):
            # Every command line goes through the harness' own reading of the documented rule, because a token may
            # name both a ref and a path (relative to the cwd).
            if q["api"] == "cli_raw":
                raw_argv = list(q["argv"])
                self.stat("cli_raw_queries")
            else:
                raw_argv = [q["ref_a"]] if q["ref_b"] == "WORKING" else [q["ref_a"], q["ref_b"]]
                p0 = q.get("paths")
                if p0:
                    raw_argv += [p0] if isinstance(p0, str) else list(p0)
            res = self.resolve_cli(raw_argv, cwd_abs)
            if res is None:
                git_mode = False      # two plain files (or nothing git can answer): only the cwd clauses apply
                q = dict(q, api="cli", ref_a="HEAD", ref_b="WORKING", paths=None)
                self.stat("cli_not_git_mode")
            else:
                q = dict(q, api="cli", ref_a=res[0], ref_b=res[1], paths=res[2])
                if any(self._tok_is_both(t, cwd_abs) for t in raw_argv):
                    self.stat("probe_cli_token_is_ref_and_path")
        ref_class = ("I" if q["ref_a"] == "INDEX" else "C") + {"INDEX": "I", "WORKING": "W"}.get(q["ref_b"], "C")
        from_sub = bool(q["cwd"])
        paths = q.get("paths")
        fshape = "none" if not paths else ("str" if isinstance(paths, str) else ("one" if len(paths) == 1 else "many"))
        sig_base = {"api": q["api"], "refs": ref_class, "from_subdir": from_sub}
        expected, err = _expected(w, q, cwd_abs)
        self.colon_entry = bool(expected) and any(n.startswith(":") for _, a, b in expected for n in (a, b) if n)
        if self.colon_entry:
            self.stat("queries_with_colon_leading_path")
        self.stat("queries")
        self.stat("queries_%s" % ref_class)
        self.stat("queries_api_%s" % q["api"])
        if from_sub:
            self.stat("queries_from_subdir")
        self.stat("filter_%s" % fshape)

        spawn = _SpawnFault(self.log)
        opener = _OpenFault(self.log, w.work)
        fault = q.get("fault")
        spawn.filter_cmd = self.clean_filter
        if fault and fault["kind"] in ("spawn_fail", "filter_fail"):
            spawn.plan = fault
        if fault and fault["kind"] == "vanish":
            opener.plan = fault

        yielded = []       # (a_name, b_name, a_text, b_text)
        cwd_between = []
        outcome = "ok"
        consume = q.get("consume", "all")
        os.chdir(cwd_abs)
        pre = os.getcwd()
        # install seams (module attributes; nbdime looks them up at call time)
        saved = (subprocess.Popen, git.cmd.safer_popen, git.cmd.Popen, io.open)
        subprocess.Popen = spawn
        git.cmd.safer_popen = spawn
        git.cmd.Popen = spawn
        io.open = opener
        handled = []
        named = [core.NamedImports(_real_popen, spawn), core.NamedImports(_real_io_open, opener)]
        for n_ in named:
            n_.__enter__()
        try:
            def to_ref(r):
                return {"INDEX": gitfiles.GitRefIndex, "WORKING": gitfiles.GitRefWorkingTree}.get(r, r)
            if q["api"] == "changed_notebooks":
                gen = gitfiles.changed_notebooks(to_ref(q["ref_a"]), to_ref(q["ref_b"]), paths)
                try:
                    for k, (fa, fb) in enumerate(gen):
                        cwd_between.append(os.getcwd())
                        yielded.append((_stream_name(fa), _stream_name(fb), _stream_text(fa), _stream_text(fb)))
                        for s in (fa, fb):
                            if hasattr(s, "close"):
                                s.close()
                        if isinstance(consume, dict) and consume.get("close_after") == k:
                            gen.close()
                            outcome = "closed"
                            break
                        if isinstance(consume, dict) and consume.get("raise_after") == k:
                            raise KeyError("consumer failed")
                except KeyError:
                    outcome = "consumer_raised"
            else:
                orig_handle = nbdiffapp._handle_diff

                def rec(base, remote, output, args):
                    cwd_between.append(os.getcwd())
                    yielded.append((_stream_name(base), _stream_name(remote), _stream_text(base), _stream_text(remote)))
                    try:
                        return orig_handle(base, remote, output, args)
                    except Exception as e:
                        # what diffing/printing one pair does is not C17's subject (history dependence of
                        # the differ is C12); keep iterating so that the examined set stays observable
                        self.stat("cli_pair_handler_raised")
                        handled.append("raised")
                        self.log.ev("cli_pair_handler_raised", exc=type(e).__name__)
                        return 0
                nbdiffapp._handle_diff = rec
                argv = []
                if q["ref_b"] == "WORKING":
                    argv = [q["ref_a"]]
                else:
                    argv = [q["ref_a"], q["ref_b"]]
                if paths:
                    argv += [paths] if isinstance(paths, str) else list(paths)
                if raw_argv is not None:
                    argv = list(raw_argv)
                if q.get("out"):
                    argv += ["--out", "diff-out.json"]
                sink = io.StringIO()
                try:
                    with contextlib.redirect_stdout(sink), contextlib.redirect_stderr(sink):
                        rc = nbdiffapp.main(argv)
                    outcome = "rc%s" % rc
                finally:
                    nbdiffapp._handle_diff = orig_handle
        except SystemExit as e:
            outcome = "exit:%s" % (e.code,)
        except Exception as e:
            outcome = "exc:%s" % type(e).__name__
        finally:
            subprocess.Popen, git.cmd.safer_popen, git.cmd.Popen, io.open = saved
            for n_ in named:
                n_.__exit__()
        post = os.getcwd()
        os.chdir(w.work)
        if spawn.fired:
            self.stat("fault_fired_spawn_fail", spawn.fired)
        if opener.fired:
            self.stat("fault_fired_vanish", len(opener.fired))
        if spawn.fired_filter:
            self.stat("fault_fired_filter_fail", spawn.fired_filter)
        self.stat("outcome_" + outcome.split(":")[0])
        self.log.ev("query", q={k: v for k, v in q.items() if k != "op"}, outcome=outcome, n=len(yielded),
                    names=[[y[0], y[1]] for y in yielded], post=os.path.relpath(post, w.work))

        faulted = bool(spawn.fired or opener.fired or spawn.fired_filter)
        # G4: cwd afterwards == before, after every outcome
        if post != pre:
            self.violate("G4", sig_base, "cwd before query %r, after %r (outcome %s, %d pairs)" % (
                os.path.relpath(pre, w.work), os.path.relpath(post, w.work), outcome, len(yielded)))
        else:
            bad = [c for c in cwd_between if c != pre]
            if bad:
                self.violate("G4b", sig_base, "cwd while the caller handled a pair: %r, expected %r" % (
                    os.path.relpath(bad[0], w.work), os.path.relpath(pre, w.work)))
        if q["api"] == "cli" and q.get("out") and yielded and outcome == "rc0" and not faulted and not handled:
            if not os.path.exists(os.path.join(cwd_abs, "diff-out.json")):
                self.violate("G4b", sig_base, "--out file did not land in the directory nbdiff was run from")
        if not git_mode:
            self.stat("outcome_not_git_mode")
            for d, _, files in os.walk(w.work):
                if "diff-out.json" in files and ".git" not in d:
                    os.remove(os.path.join(d, "diff-out.json"))
            return
        # drop harness artefacts
        for d, _, files in os.walk(w.work):
            if "diff-out.json" in files and ".git" not in d:
                os.remove(os.path.join(d, "diff-out.json"))

        if expected is None:
            # git itself rejects the query (bad ref after minimisation, ...): nbdime must not succeed silently
            self.stat("queries_git_rejects")
            return
        if outcome.startswith("exc") or outcome.startswith("exit") or (outcome.startswith("rc") and outcome != "rc0"):
            if not faulted:
                self.violate("G1", dict(sig_base, kind="failed"), "git answers the query but nbdime failed: %s; expected %r" % (outcome, expected))
            return
        if faulted and spawn.fired:
            return
        complete = outcome in ("ok", "rc0")
        # expected entries restricted to notebooks
        required, optional = [], []
        for st, a, b in expected:
            names = [n for n in ((a, b) if st in "RCM T".replace(" ", "") else ((b,) if st == "A" else (a,)))]
            pair = (None if st == "A" else a, None if st == "D" else b)
            if all(_is_nb(n) for n in names):
                required.append(pair)
            elif any(_is_nb(n) for n in names):
                optional.append(pair)
            self.distinct["entry_kinds"].add(st[0] + ("n" if all(_is_nb(n) for n in names) else "o"))
        self.stat("expected_entries", len(required))
        for st, _, _ in expected:
            self.stat("git_status_" + st[0])
        if len(required) >= 2 and q["ref_b"] == "WORKING" and from_sub:
            self.stat("probe_multi_worktree_entries_from_subdir")
        if len(required) >= 2:
            self.stat("probe_multi_entry_query")
        vanished = set(opener.fired)
        got = []
        for (an, bn, at, bt) in yielded:
            # an entry whose working file the harness made vanish shows up as a deletion: exempt
            got.append((an, bn))
        self.distinct["query_shape"].add(core.sha([ref_class, from_sub, fshape, len(required), sorted(set(s for s, _, _ in expected))])[:12])

        got_l = sorted(((p[0], p[1]) for p in got), key=repr)
        required_m = sorted(required, key=repr)
        optional_m = list(optional)
        for v in sorted(vanished):
            # The harness made working-tree file v vanish under nbdime: that entry shows up with the null file on
            # the working-tree side, which the code maps deliberately; take the entry out of the comparison.
            r = next((p for p in required_m + optional_m if p[1] == v), None)
            if r is None:
                continue
            (required_m if r in required_m else optional_m).remove(r)
            if (r[0], None) in got_l:
                got_l.remove((r[0], None))
            elif r in got_l:
                got_l.remove(r)
        if complete:
            extra = list(got_l)
            missing = []
            for p in required_m:
                if p in extra:
                    extra.remove(p)
                else:
                    missing.append(p)
            for p in optional_m:
                if p in extra:
                    extra.remove(p)
            if missing or extra:
                nonnb = [p for p in extra if any(n and not _is_nb(n) for n in p)]
                self.violate("G3" if nonnb and not missing else "G1", dict(sig_base, kind="set"),
                             "git reports %r (optional %r) but nbdime examined %r; missing %r, extra %r; query %r" % (
                                 required_m, optional_m, got_l, missing, extra, {k: v for k, v in q.items() if k != "op"}))
                return
        else:
            # abandoned iteration: what was yielded so far must be a sub-multiset
            pool = list(required_m) + list(optional_m)
            for p in got_l:
                if p in pool:
                    pool.remove(p)
                else:
                    self.violate("G1", dict(sig_base, kind="set"), "yielded pair %r is not among git's entries %r" % (p, required_m))
                    return
        # G2: contents on each side
        for (an, bn, at, bt) in yielded:
            if bn in vanished or an in vanished:
                continue
            for side, name, text, ref in (("a", an, at, q["ref_a"]), ("b", bn, bt, q["ref_b"])):
                flt = self.clean_filter
                if ref == "WORKING" and name and os.path.realpath(os.path.join(w.work, name)) in spawn.filter_failed:
                    # this file's clean filter was made to crash.  nbdime may give up (handled above); if it goes on,
                    # the only content it can stand behind is the file itself - what git uses when a filter that is
                    # not `required` fails - never the crashed filter's partial output
                    flt = None
                    self.stat("probe_pair_after_failed_filter_checked")
                want = _side_content(w, ref, name, flt)
                if _parse(text) != _parse(want):
                    self.violate("G2", dict(sig_base, side=side),
                                 "side %s of pair (%r, %r): nbdime's content differs from what git holds at %s" % (side, an, bn, ref))
                    return
            self.stat("pairs_content_checked")

    def run(self):
        w = self.world
        layout = (self.trace.get("swarm") or {}).get("layout", "plain")
        outer = None
        if layout == "linked_nested":
            # the repository under test is a linked work tree kept inside the main work tree of its repository
            outer = w.work
            w.work = os.path.join(outer, "trees", "feature")
            os.makedirs(w.work)
        w.activate()
        if layout == "linked_nested":
            w.git("init", "-q", "-b", "trunk", ".", cwd=outer)
            w.git("config", "user.name", "Sim", cwd=outer)
            w.git("config", "user.email", "sim@example.invalid", cwd=outer)
            with open(os.path.join(outer, "trunk.ipynb"), "w") as f:
                f.write('{"cells": [], "metadata": {"on": "trunk"}, "nbformat": 4, "nbformat_minor": 4}\n')
            w.git("add", "trunk.ipynb", cwd=outer)
            w.git("commit", "-q", "-m", "trunk 1", cwd=outer)
            with open(os.path.join(outer, "trunk.ipynb"), "w") as f:
                f.write('{"cells": [], "metadata": {"on": "trunk", "v": 2}, "nbformat": 4, "nbformat_minor": 4}\n')
            w.git("commit", "-q", "-am", "trunk 2", cwd=outer)
            w.git("worktree", "add", "-q", "--detach", w.work, cwd=outer)
            # an unborn branch of its own, so that the generated history starts from nothing as in the other layouts
            w.git("checkout", "-q", "--orphan", "main")
            w.git("rm", "-q", "-r", "-f", "--", ".", check=False)
            self.stat("layout_linked_nested")
        elif layout == "separate_git_dir":
            w.git("init", "-q", "-b", "main", "--separate-git-dir", os.path.join(w.root, "gitstore"), ".")
            self.stat("layout_separate_git_dir")
        else:
            w.git("init", "-q", "-b", "main", ".")
        w.git("config", "user.name", "Sim")
        w.git("config", "user.email", "sim@example.invalid")
        self.log.ev("start", swarm=self.trace.get("swarm"))
        self.clean_filter = (self.trace.get("swarm") or {}).get("clean_filter")
        if self.clean_filter:
            sw = self.trace.get("swarm") or {}
            w.git("config", "--" + sw.get("filter_config_scope", "local"), "filter.nbclean.clean", self.clean_filter)
            loc = sw.get("filter_location", "info")
            if loc == "xdg":
                attrs = os.path.join(w.xdg, "git", "attributes")
            elif loc == "attributesfile":
                attrs = os.path.join(w.home, "my attributes")
                w.git("config", "--global", "core.attributesFile", "~/my attributes")
            elif loc == "tree":
                attrs = os.path.join(w.work, ".gitattributes")
            else:
                attrs = os.path.realpath(os.path.join(w.work, w.git("rev-parse", "--git-path", "info/attributes").stdout.decode().strip()))
            os.makedirs(os.path.dirname(attrs), exist_ok=True)
            self.stat("filter_location_" + loc)
            with open(attrs, "w") as f:
                if (self.trace.get("swarm") or {}).get("filter_pattern") == "per_dir":
                    for d in DIRS:
                        f.write("%s/*.ipynb filter=nbclean\n" % (d.replace(" ", "[[:space:]]") if d else ""))
                else:
                    f.write("*.ipynb filter=nbclean\n")
            self.stat("histories_with_clean_filter")
        for op in self.trace["ops"]:
            if op["op"] == "query":
                self.do_query(op)
            else:
                self.do_op(op)
        qs = [o for o in self.trace["ops"] if o["op"] == "query"]
        self.sample = {"n_ops": len(self.trace["ops"]),
                       "ops": [o["op"] + ":" + str(o.get("path") or o.get("argv") or o.get("msg") or "") for o in self.trace["ops"] if o["op"] != "query"][:12],
                       "queries": [{k: v for k, v in q.items() if k != "op"} for q in qs[:3]]}
        return {"violations": self.violations, "digest": self.log.digest(), "events": self.log.n,
                "stats": self.stats, "distinct": {k: sorted(v) for k, v in self.distinct.items()},
                "sample": self.sample}


def execute(trace, scratch):
    return Runner(trace, scratch).run()


# ------------------------------------------------------------------ minimisation

def shrink(trace, fails, budget):
    ops = core.ddmin(trace["ops"], lambda sub: fails(dict(trace, ops=sub)), budget)
    trace = dict(trace, ops=ops)
    # simplify notebooks and queries
    minimal = {"cells": [], "metadata": {}, "nbformat": 4, "nbformat_minor": 4}
    for i, op in enumerate(list(trace["ops"])):
        if not budget.left():
            break
        if op["op"] == "write_nb" and op["nb"] != minimal:
            cand = list(trace["ops"])
            cand[i] = dict(op, nb=minimal)
            budget.spend()
            if fails(dict(trace, ops=cand)):
                trace = dict(trace, ops=cand)
        elif op["op"] == "query":
            for key, val in (("fault", None), ("consume", "all"), ("paths", None), ("out", False)):
                if op.get(key) not in (val, None) or (key == "consume" and op.get(key) != "all"):
                    cand = list(trace["ops"])
                    cand[i] = dict(cand[i], **{key: val})
                    budget.spend()
                    if fails(dict(trace, ops=cand)):
                        trace = dict(trace, ops=cand)
    return trace


# ------------------------------------------------------------------ evidence

def coverage(agg):
    c = agg.counters
    cov = {
        "distinct_nontrivial": len(agg.distinct.get("query_shape", ())),
        "queries": c.get("queries", 0),
        "pairs_content_checked": c.get("pairs_content_checked", 0),
        "faults_fired": {k[len("fault_fired_"):]: v for k, v in c.items() if k.startswith("fault_fired_")},
        "probes": {k[len("probe_"):]: v for k, v in c.items() if k.startswith("probe_")},
        "simulated_time": "nbdime's git layer has no clock; coverage is counted in world operations and queries "
                          "(commit dates come from a simulated clock advancing 60 s per commit)",
        "real_vs_stub": {"real": ["nbdime.gitfiles", "nbdime.nbdiffapp", "nbdime.args", "nbdime.utils.pushd", "GitPython", "git binary"],
                         "simulated": ["repository history (seeded)", "subprocess.Popen seam for spawn faults", "io.open seam for vanished files"]},
    }
    rule = ("Each run = one seeded repository history (writes/edits/deletes/renames of notebook and other files in nested "
            "directories, add/rm/mv/commit/tag/branch) with queries of changed_notebooks / nbdiff interleaved. "
            "distinct_nontrivial counts distinct query shapes (ref-pair class, from-subdirectory, filter shape, number of "
            "changed notebooks git reports, set of git status letters) among queries that git itself answers.")
    assumptions = [
        "git's own `git diff --name-status -M -z` / `git show` from the same cwd with the same pathspecs is the oracle",
        "no clean/smudge filters, submodules, symlinks, intent-to-add entries or autocrlf in the sandbox",
        "renames across the .ipynb extension boundary are accepted either way",
        "contents are compared as parsed JSON",
    ]
    return cov, rule, assumptions


def self_check(agg, cfg):
    need = ["queries_CC", "queries_CI", "queries_CW", "queries_IW", "queries_from_subdir", "git_status_R",
            "git_status_D", "git_status_A", "probe_multi_worktree_entries_from_subdir", "pairs_content_checked"]
    return [k for k in need if not agg.counters.get(k)]
