#!/venv/bin/python
"""Soundness self-test: apply each behaviour-preserving change (selftest/benign/<ID>/*.diff) to a scratch worktree
of /repo outside /repo and /verif, run the check against it (VERIF_REPO), expect exit 0 - a check that alarms on
code where the property still holds is broken.

usage: selftest/benign.py C17 [--tier quick] [--seeds 1,2] [name-substring]"""
import glob, os, shutil, subprocess, sys, time
HERE = os.path.dirname(os.path.dirname(os.path.abspath(__file__)))
REPO = "/repo"


def main():
    prop = sys.argv[1]
    tier = sys.argv[sys.argv.index("--tier") + 1] if "--tier" in sys.argv else "quick"
    seeds = sys.argv[sys.argv.index("--seeds") + 1].split(",") if "--seeds" in sys.argv else [os.environ.get("VERIF_SEED", "1")]
    skip = {tier, ",".join(seeds)}
    only = [a for a in sys.argv[2:] if not a.startswith("--") and a not in skip]
    diffs = sorted(glob.glob(os.path.join(HERE, "selftest", "benign", prop, "*.diff")))
    if only:
        diffs = [d for d in diffs if any(o in d for o in only)]
    base = os.environ.get("VERIF_SCRATCH") or "/dev/shm"
    rows = []
    for d in diffs:
        name = os.path.relpath(d, HERE)
        wt = os.path.join(base, "nbdime-benign-%d" % os.getpid())
        subprocess.run(["git", "-C", REPO, "worktree", "add", "-q", "--detach", wt, "HEAD"], check=True)
        try:
            p = subprocess.run(["git", "-C", wt, "apply", d], stderr=subprocess.PIPE)
            if p.returncode != 0:
                rows.append((name, "PATCH-FAILED", 0, p.stderr.decode()[:200]))
                continue
            for seed in seeds:
                t0 = time.time()
                env = dict(os.environ, VERIF_REPO=wt, VERIF_SEED=seed)
                q = subprocess.run([os.path.join(HERE, "check"), prop, "--tier", tier, "--no-evidence"], env=env,
                                   stdout=subprocess.PIPE, stderr=subprocess.STDOUT)
                out = q.stdout.decode()
                first = next((l for l in out.splitlines() if l.startswith("  oracle=")), "")
                detail = next((l for l in out.splitlines() if l.startswith("  detail:")), "")
                rows.append((name + " seed=" + seed, {0: "quiet", 1: "ALARM", 2: "HARNESS-ERROR"}.get(q.returncode, "rc%d" % q.returncode),
                             time.time() - t0, (first.strip() + " " + detail.strip())[:400] if q.returncode == 1 else ("" if q.returncode == 0 else out[-300:])))
        finally:
            subprocess.run(["git", "-C", REPO, "worktree", "remove", "--force", wt])
            shutil.rmtree(wt, ignore_errors=True)
    bad = 0
    for name, verdict, secs, info in rows:
        print("%-66s %-14s %5.1fs  %s" % (name, verdict, secs, info))
        bad += verdict != "quiet"
    print("%s: %d/%d benign changes pass quietly" % (prop, len(rows) - bad, len(rows)))
    return 1 if bad else 0


if __name__ == "__main__":
    sys.exit(main())
