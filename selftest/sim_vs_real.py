#!/venv/bin/python
"""Trust check for the C20 simulator: the same request sequences are sent (a) through the simulated
loop / in-memory streams and (b) over real loopback sockets to the same entry point running on a
real asyncio loop in a child process; status codes and JSON bodies must agree.

usage: selftest/sim_vs_real.py [--sessions N]"""
import json
import os
import random
import socket
import subprocess
import sys
import time

HERE = os.path.dirname(os.path.dirname(os.path.abspath(__file__)))
REPO = os.environ.get("VERIF_REPO", "/repo")
if os.environ.get("PYTHONHASHSEED") != "0" or HERE not in os.environ.get("PYTHONPATH", "").split(os.pathsep):
    # the reference servers are started from the environment: same set-up as the `check` script
    env = dict(os.environ, PYTHONHASHSEED="0", PYTHONDONTWRITEBYTECODE="1",
               PYTHONPATH=os.pathsep.join([HERE, os.path.join(HERE, "stubs"), REPO]))
    os.execve(sys.executable, [sys.executable] + sys.argv, env)
sys.path[:0] = [HERE, os.path.join(HERE, "stubs"), REPO]

REAL_SERVER = r'''
import os, sys, json
sys.path[:0] = %(path)r
os.chdir(%(work)r)
import webbrowser
def nob(*a, **k): raise webbrowser.Error("none")
webbrowser.get = nob
import logging; logging.disable(logging.CRITICAL)
import nbdime.config as nbconfig
nbconfig.config_instance(nbconfig.Web).workdirectory = os.getcwd()
import nbdime.webapp.nbdimeserver as srv
import tornado.tcpserver
orig = tornado.tcpserver.TCPServer.add_sockets
def add_sockets(self, sockets):
    print("PORT", sockets[0].getsockname()[1], flush=True)
    return orig(self, sockets)
tornado.tcpserver.TCPServer.add_sockets = add_sockets
from nbdime.webapp import nbdimeserver, nbdiffweb, nbdifftool, nbmergeweb, nbmergetool
mains = {"server": nbdimeserver.main, "diffweb": nbdiffweb.main, "difftool": nbdifftool.main, "mergeweb": nbmergeweb.main,
         "mergeweb_out": nbmergeweb.main, "mergetool": nbmergetool.main, "diffweb_refs": nbdiffweb.main}
sys.argv[0] = %(prog)r
rc = mains[%(mode)r](%(argv)r)
print("EXIT", rc, flush=True)
'''


def recv_response(sock):
    buf = b""
    sock.settimeout(10)
    while b"\r\n\r\n" not in buf:
        chunk = sock.recv(65536)
        if not chunk:
            return None
        buf += chunk
    head, _, rest = buf.partition(b"\r\n\r\n")
    lines = head.decode("latin1").split("\r\n")
    status = int(lines[0].split(" ")[1])
    headers = {l.split(":", 1)[0].strip().lower(): l.split(":", 1)[1].strip() for l in lines[1:] if ":" in l}
    if 100 <= status < 200:
        return recv_response_from(rest, sock)
    n = int(headers.get("content-length", 0))
    while len(rest) < n:
        chunk = sock.recv(65536)
        if not chunk:
            break
        rest += chunk
    return status, rest[:n]


def recv_response_from(rest, sock):
    class S:
        def __init__(self, rest, sock):
            self.rest, self.sock = rest, sock

        def settimeout(self, t):
            self.sock.settimeout(t)

        def recv(self, n):
            if self.rest:
                r, self.rest = self.rest, b""
                return r
            return self.sock.recv(n)
    return recv_response(S(rest, sock))


def norm(status, body):
    try:
        j = json.loads(body.decode("utf8")) if body else None
    except Exception:
        j = "<non-json>"
    if status >= 400:
        j = None           # error bodies carry tracebacks / paths
    return [status, j]


def main():
    from props import c20
    from simkit import core
    n = int(sys.argv[sys.argv.index("--sessions") + 1]) if "--sessions" in sys.argv else 12
    c20.prepare()
    bad = 0
    compared = 0
    try:
        for i in range(n):
            seed = core.run_seed("C20-simreal", 1, i)
            rng = random.Random(seed)
            trace = c20.generate(rng, i, dict(c20.TIERS["quick"], max_exchanges=8))
            trace["run_seed"] = "%016x" % seed
            # one client, no faults, no remote URLs, no closetool in the middle: a plain sequential conversation
            exs = [e for e in trace["clients"][0]["exchanges"] if e["kind"] != "touch" and "raw" not in e
                   and "peer.invalid" not in (e.get("body") or "") and "peer.invalid" not in json.dumps(e.get("args") or {})]
            for e in exs:
                e["net"] = e["disk"] = None
                e["reuse"] = False
                e["framing"] = "length"
            exs = [e for e in exs if e["kind"] not in ("close", "close_malformed")][:8]
            if not exs:
                continue
            trace["clients"] = [{"exchanges": exs}]
            trace["swarm"]["backpressure"] = None
            captured = []

            def run_sim(trace, scratch=None):
                r = c20.Runner(trace, scratch)
                orig = r.evaluate

                def ev(ci, xi, ex, resp, aborted, before_output, resp2):
                    captured.append(norm(resp.status, resp.body) if resp is not None else None)
                    return orig(ci, xi, ex, resp, aborted, before_output, resp2)
                r.evaluate = ev
                out = r.run()
                out["captured"] = captured
                return out
            sim = core.run_one_forked(run_sim, (trace,), 120)
            if "harness_error" in sim:
                print("session %d: simulation failed: %s" % (i, sim["harness_error"][-300:]))
                bad += 1
                continue
            sim_resps = sim["ok"]["captured"]
            # ---- the real thing
            scratch = os.path.join(core.scratch_root(), "real%d" % i)
            os.makedirs(scratch)

            r = c20.Runner(trace, scratch)
            cwd0 = os.getcwd()
            env0 = dict(os.environ)
            r.setup()
            prog, main_fn, argv = r.entry()
            os.chdir(cwd0)
            code = REAL_SERVER % {"path": [REPO, os.path.join(HERE, "stubs")], "work": r.w.work, "prog": prog,
                                  "mode": trace["world"]["mode"], "argv": argv}
            env = dict(r.w.env, PYTHONPATH=os.pathsep.join([REPO, os.path.join(HERE, "stubs")]))
            os.environ.clear()
            os.environ.update(env0)
            errf = open(os.path.join(scratch, "real.err"), "wb")
            p = subprocess.Popen([sys.executable, "-c", code], stdout=subprocess.PIPE, stderr=errf, env=env)
            line = p.stdout.readline().decode()
            if not line.startswith("PORT"):
                p.wait()
                print("session %d (%s): real server did not start: %r %s" % (
                    i, trace["world"]["mode"], line, open(os.path.join(scratch, "real.err"), "rb").read().decode("utf8", "replace")[-300:]))
                p.kill()
                bad += 1
                continue
            port = int(line.split()[1])
            real_resps = []
            for ex in exs:
                raw = r.build_request(ex)
                s = socket.create_connection(("127.0.0.1", port), timeout=10)
                s.sendall(raw)
                resp = recv_response(s)
                s.close()
                real_resps.append(norm(*resp) if resp else None)
            p.kill()
            p.wait()
            for k, (a, b) in enumerate(zip(sim_resps, real_resps)):
                compared += 1
                if a != b:
                    bad += 1
                    print("session %d exchange %d (%s %s): simulated %s  vs  real %s" % (
                        i, k, exs[k]["kind"], exs[k].get("path"), json.dumps(a)[:200], json.dumps(b)[:200]))
    finally:
        c20.teardown()
        core.cleanup_scratch()
    print("sim-vs-real: %d exchanges compared, %d disagreements" % (compared, bad))
    return 1 if bad else 0


if __name__ == "__main__":
    sys.exit(main())
