#!/usr/bin/env python3
"""mkmutant.py <PROP> <name> <file> : reads OLD\n===\nNEW from stdin (several blocks separated by a line '#####'),
applies to a scratch worktree of /repo, writes selftest/mutants/<PROP>/<name>.diff"""
import os, subprocess, sys, shutil
prop, name, path = sys.argv[1:4]
wt = "/dev/shm/nbdime-mkmut-%d" % os.getpid()
subprocess.run(["git", "-C", "/repo", "worktree", "add", "-q", "--detach", wt, "HEAD"], check=True)
try:
    f = os.path.join(wt, path)
    s = open(f).read()
    for block in sys.stdin.read().split("\n#####\n"):
        old, new = block.split("\n===\n")
        old = old.strip("\n"); new = new.strip("\n")
        assert old in s, "not found: %r" % old
        s = s.replace(old, new, 1)
    open(f, "w").write(s)
    subprocess.run([sys.executable, "-c", "import ast,sys;ast.parse(open(sys.argv[1]).read())", f], check=True)
    d = subprocess.run(["git", "-C", wt, "diff"], stdout=subprocess.PIPE, check=True).stdout
    out = os.path.join("/verif/selftest/mutants", prop)
    os.makedirs(out, exist_ok=True)
    open(os.path.join(out, name + ".diff"), "wb").write(d)
    print("wrote", name, len(d), "bytes")
finally:
    subprocess.run(["git", "-C", "/repo", "worktree", "remove", "--force", wt])
    shutil.rmtree(wt, ignore_errors=True)
