#!/venv/bin/python
"""Sensitivity self-test: apply each mutant (selftest/mutants/<ID>/*.diff, seeded/<ID>*/patch.diff) to a scratch
worktree of /repo outside /repo and /verif, run the check against it (VERIF_REPO), expect exit 1.

usage: selftest/mutants.py C17 [--tier quick] [name-substring]"""
import glob, json, os, shutil, subprocess, sys, time
HERE = os.path.dirname(os.path.dirname(os.path.abspath(__file__)))
REPO = "/repo"

def main():
    prop = sys.argv[1]
    tier = sys.argv[sys.argv.index("--tier") + 1] if "--tier" in sys.argv else "quick"
    only = [a for a in sys.argv[2:] if not a.startswith("--") and a != tier]
    diffs = sorted(glob.glob(os.path.join(HERE, "selftest", "mutants", prop, "*.diff")))
    for meta in sorted(glob.glob(os.path.join(HERE, "seeded", "*", "meta.json"))):
        m = json.load(open(meta))
        if m.get("property") == prop:
            diffs.append(os.path.join(os.path.dirname(meta), "patch.diff"))
    if only:
        diffs = [d for d in diffs if any(o in d for o in only)]
    base = os.environ.get("VERIF_SCRATCH") or "/dev/shm"
    rows = []
    for d in diffs:
        name = os.path.relpath(d, HERE)
        wt = os.path.join(base, "nbdime-mut-%d" % os.getpid())
        subprocess.run(["git", "-C", REPO, "worktree", "add", "-q", "--detach", wt, "HEAD"], check=True)
        try:
            p = subprocess.run(["git", "-C", wt, "apply", d], stderr=subprocess.PIPE)
            if p.returncode != 0:
                rows.append((name, "PATCH-FAILED", 0, p.stderr.decode()[:200])); continue
            t0 = time.time()
            env = dict(os.environ, VERIF_REPO=wt)
            q = subprocess.run([os.path.join(HERE, "check"), prop, "--tier", tier, "--no-evidence"], env=env,
                               stdout=subprocess.PIPE, stderr=subprocess.STDOUT)
            out = q.stdout.decode()
            first = next((l for l in out.splitlines() if l.startswith("  oracle=")), "")
            rows.append((name, {0: "MISSED", 1: "caught", 2: "HARNESS-ERROR"}.get(q.returncode, "rc%d" % q.returncode),
                         time.time() - t0, first.strip()[:150] if q.returncode == 1 else out[-300:]))
        finally:
            subprocess.run(["git", "-C", REPO, "worktree", "remove", "--force", wt])
            shutil.rmtree(wt, ignore_errors=True)
    bad = 0
    for name, verdict, secs, info in rows:
        print("%-62s %-14s %5.1fs  %s" % (name, verdict, secs, info))
        bad += verdict != "caught"
    print("%s: %d/%d mutants caught" % (prop, len(rows) - bad, len(rows)))
    return 1 if bad else 0

if __name__ == "__main__":
    sys.exit(main())
