#!/venv/bin/python
"""Determinism self-test: the same VERIF_SEED run indices must give identical per-run event-log
digests across interpreter processes, PYTHONHASHSEED values and worker counts.

usage: selftest/determinism.py C17 [--runs 200]"""
import json, os, subprocess, sys, tempfile
HERE = os.path.dirname(os.path.dirname(os.path.abspath(__file__)))

def run(prop, runs, hashseed, jobs, seed):
    fd, path = tempfile.mkstemp(prefix="digests-", dir=os.environ.get("VERIF_SCRATCH") or "/dev/shm")
    os.close(fd)
    env = dict(os.environ, VERIF_HASHSEED=str(hashseed), VERIF_SEED=str(seed))
    env.pop("PYTHONHASHSEED", None)
    p = subprocess.run([os.path.join(HERE, "check"), prop, "--runs", str(runs), "--jobs", str(jobs),
                        "--no-evidence", "--no-corpus", "--digests", path], env=env,
                       stdout=subprocess.PIPE, stderr=subprocess.STDOUT)
    try:
        d = json.load(open(path))
    except ValueError:
        d = None
    os.remove(path)
    return p.returncode, d, p.stdout.decode()[-1500:]

def main():
    prop = sys.argv[1]
    runs = int(sys.argv[sys.argv.index("--runs") + 1]) if "--runs" in sys.argv else 200
    seed = int(os.environ.get("VERIF_SEED") or 777)
    configs = [(0, 16), (12345, 16), (987, 3), (0, 1 if runs <= 60 else 5)]
    results = []
    for hs, jobs in configs:
        rc, d, out = run(prop, runs, hs, jobs, seed)
        if d is None or rc not in (0, 1):
            print("selftest: run failed rc=%s\n%s" % (rc, out)); return 2
        results.append(d)
        print("hashseed=%-6s jobs=%-2s rc=%s runs=%d" % (hs, jobs, rc, len(d)))
    base = results[0]
    bad = 0
    for k, d in enumerate(results[1:], 1):
        diff = [i for i in base if d.get(i) != base[i]]
        if diff or len(d) != len(base):
            bad += 1
            print("DIVERGENCE vs config %r: %d runs differ, e.g. indices %s" % (configs[k], len(diff), diff[:10]))
    print("determinism %s: %s (%d runs x %d configurations)" % (prop, "FAILED" if bad else "ok", len(base), len(configs)))
    return 1 if bad else 0

if __name__ == "__main__":
    sys.exit(main())
