#!/venv/bin/python
"""confirm_seed.py <seeded-dir> : confirm a sub-agent's change independently in a fresh scratch worktree:
demo passes without / fails with the patch, the pinned suite keeps its result, then run our check against it."""
import json, os, shutil, subprocess, sys, time
HERE = os.path.dirname(os.path.dirname(os.path.abspath(__file__)))
d = os.path.abspath(sys.argv[1])
meta = json.load(open(os.path.join(d, "meta.json")))
prop = meta["property"]
wt = "/tmp/confirm-%d" % os.getpid()
env = dict(os.environ, PYTHONPATH=wt + ":/tmp/stubs-env:" + os.path.join(HERE, "stubs"), PYTHONDONTWRITEBYTECODE="1")
def run(cmd, **kw):
    return subprocess.run(cmd, stdout=subprocess.PIPE, stderr=subprocess.STDOUT, **kw)
subprocess.run(["git", "-C", "/repo", "worktree", "add", "-q", "--detach", wt, "HEAD"], check=True)
res = {}
try:
    demo = [sys.executable, os.path.join(d, "demo.py"), wt]
    p = run(demo, env=env, cwd="/tmp"); res["demo_without_patch_rc"] = p.returncode
    a = run(["git", "-C", wt, "apply", os.path.join(d, "patch.diff")]); res["patch_applies"] = a.returncode == 0
    p = run(demo, env=env, cwd="/tmp"); res["demo_with_patch_rc"] = p.returncode; res["demo_with_patch_tail"] = p.stdout.decode()[-400:]
    t = run([sys.executable, "-m", "pytest", "-q", "-p", "no:cacheprovider", "--timeout=900", "--continue-on-collection-errors", "-n", "8"], cwd=wt,
            env=dict(os.environ, PYTHONDONTWRITEBYTECODE="1"))
    res["suite_tail"] = t.stdout.decode().strip().splitlines()[-1]
    t0 = time.time()
    c = run([os.path.join(HERE, "check"), prop, "--tier", "quick", "--no-evidence"], env=dict(os.environ, VERIF_REPO=wt))
    out = c.stdout.decode()
    res["check_quick_rc"] = c.returncode
    res["check_quick_seconds"] = round(time.time() - t0, 1)
    res["check_first_violation"] = next((l.strip() for l in out.splitlines() if l.startswith("  oracle=")), None)
    res["check_tail"] = out.strip().splitlines()[-1][:200]
finally:
    subprocess.run(["git", "-C", "/repo", "worktree", "remove", "--force", wt])
    shutil.rmtree(wt, ignore_errors=True)
print(json.dumps(res, indent=1))
