#!/bin/sh
# Nothing to build or install: the checks import nbdime straight from /repo's working tree.
set -e
cd "$(dirname "$0")"
/venv/bin/python -c "import nbformat, tornado, git, requests; print('deps ok')"
exit 0
