#!/venv/bin/python
"""Regenerates /verif/MANIFEST.json from one table (so it is always schema-valid)."""
import json, os, sys
HERE = os.path.dirname(os.path.abspath(__file__))

NA = {
 "C01": "patch(A, diff(A,B)) = B is a pure function of (A,B): no schedule, clock, fault, crash point or history occurs in the statement or its quantifier (inputs only); deciding it is input generation, not deterministic simulation. History-independence of the same call is C12 (claimed).",
 "C02": "Pure function of two JSON documents (quantifier: inputs); nothing for a simulator to schedule or fault.",
 "C03": "Quantifies over inputs x a static choice of strategy flags and of which helper binary exists; nothing is promised under helper failure or changing availability, so there is no fault/schedule space. Helper sets are swept as world configuration inside C08/C12 runs only as workload.",
 "C04": "Schema validity of a pure function's result (inputs only).",
 "C05": "Algebraic laws of a pure function over inputs.",
 "C06": "Expected value known by construction from the inputs; pure (inputs only).",
 "C07": "Function of the triple and of which (correctly working) helper renders; no fault clause.",
 "C09": "Decision list is a pure function of triple and strategy; its web-API clause is oracle W2 of C20 (claimed).",
 "C10": "Equivalence of two pure code paths over inputs x three strategies.",
 "C11": "Well-formedness of values returned by pure functions.",
 "C13": "Before/after snapshots of arguments of pure calls; nbdime shares no notebook object between requests or threads so no interleaving can observe a transient mutation; server clause is inside oracle W1 of C20.",
 "C14": "64 static configurations x inputs from a fresh state; the stateful part (set/reset transitions of the global differ table) is explored by C12.",
 "C15": "Agreement of two pure implementations on equal input; the TypeScript toolchain is absent so the browser side cannot run at all.",
 "C16": "Inputs x static flag/renderer options; nothing promised under helper failure, closed pipes or signals.",
 "C19": "Effective option value is a pure function of (config files, environment, argv, entry point); files are re-read on every parse, nothing cached across calls.",
}

CHECKS = {}   # filled in below as checks land; see CLAIMED

CLAIMED = json.load(open(os.path.join(HERE, "claimed.json"))) if os.path.exists(os.path.join(HERE, "claimed.json")) else {}

def main():
    props = [json.loads(l)["id"] for l in open(os.path.join(HERE, "properties.jsonl"))]
    checks = []
    na = []
    for pid in props:
        if pid in CLAIMED:
            c = CLAIMED[pid]
            checks.append({
                "property_id": pid,
                "quick_cmd": "./check %s --tier quick" % pid,
                "thorough_cmd": "./check %s --tier thorough" % pid,
                "evidence_file": "/verif/evidence/%s.json" % pid,
                "replay_cmd_template": "./check %s --replay {path}" % pid,
                "engine": c["engine"],
                "level_claimed": {"category": c["level"], "text": c["text"], "design_ref": c["design_ref"]},
                "level_note": c["note"],
                "technique": c["technique"],
            })
        elif pid in NA:
            na.append({"property_id": pid, "reason": NA[pid]})
        else:
            na.append({"property_id": pid, "reason": "check under construction in this session (deterministic simulation engine not yet landed); see DESIGN.md section 4"})
    m = {
        "version": 1,
        "setup_cmd": "./setup.sh",
        "hooks": {
            "guard": "NBDIME_VERIF",
            "enable": "none needed: every seam is reached by attribute patching from the harness (PYTHONPATH=/verif/stubs:/repo); the guard name is reserved and unused",
            "baseline_off_cmd": "cd /repo && /venv/bin/python -m pytest -ra -q -p no:cacheprovider --timeout=900 --continue-on-collection-errors",
            "source_commits": [],
            "add_only": True,
        },
        "engines": [
            {"name": "simkit", "path": "/verif/simkit", "serves_properties": sorted(CLAIMED),
             "kind_free_text": "deterministic simulation with fault injection: seeded fork-per-run scheduler, SimFS/SimProc/SimLoop/SimNet seams, ddmin minimiser, replay files"},
        ],
        "checks": checks,
        "not_applicable": na,
        "notes": ("See DESIGN.md (sections 11-15: as built, defects found and fixed, false alarms corrected, sensitivity tables, seeded changes). "
                  "Exit 0 = held; exit 1 + VIOLATION line = violation; exit 2 = harness error (never a pass). "
                  "Every tier first replays corpus/<ID>/*.json (minimised reproductions of every defect found). "
                  "Self-tests: selftest/determinism.py <ID> (same seeds, 4 configurations of hash seed x worker count, per-run digests must match); "
                  "selftest/mutants.py <ID> (hand-written mutants + sub-agent seeded changes under seeded/, applied to scratch worktrees, VERIF_REPO=<wt>); "
                  "selftest/sim_vs_real.py (C20 simulator vs real loopback sockets). known_findings.json: 'fixed' entries suppress nothing; one 'known' entry (C20/W1 bool-vs-number conflation in the library diff)."),
    }
    json.dump(m, open(os.path.join(HERE, "MANIFEST.json"), "w"), indent=1)
    print("wrote MANIFEST.json: %d checks, %d n/a" % (len(checks), len(na)))

if __name__ == "__main__":
    main()
